//! Shared pieces of the conformance harness: argument parsing, the ndjson event
//! writer, the seeded RNG, digests, scripted in-memory I/O, a hand-rolled poll loop
//! with a poll budget, and panic capture.
//!
//! The harness never writes traces to stdout and never holds the stdout lock:
//! servlin prints to stdout on its error path.
#![allow(dead_code)]
use rand::prelude::*;
use serde_json::{json, Map, Value};
use std::collections::HashMap;
use std::future::Future;
use std::io::Write;
use std::pin::Pin;
use std::sync::atomic::{AtomicU64, Ordering};
use std::sync::{Arc, Mutex};
use std::task::{Context, Poll, RawWaker, RawWakerVTable, Waker};

// ---------------------------------------------------------------- arguments
pub struct Args {
    pub driver: String,
    map: HashMap<String, String>,
}
impl Args {
    pub fn parse() -> Self {
        let mut it = std::env::args().skip(1);
        let driver = it.next().unwrap_or_else(|| usage());
        let mut map = HashMap::new();
        while let Some(k) = it.next() {
            let Some(key) = k.strip_prefix("--") else { usage() };
            let v = it.next().unwrap_or_else(|| usage());
            map.insert(key.to_string(), v);
        }
        Args { driver, map }
    }
    pub fn str(&self, k: &str, default: &str) -> String {
        self.map.get(k).cloned().unwrap_or_else(|| default.to_string())
    }
    pub fn opt(&self, k: &str) -> Option<String> {
        self.map.get(k).cloned()
    }
    pub fn u64(&self, k: &str, default: u64) -> u64 {
        self.map.get(k).map_or(default, |s| s.parse().unwrap_or_else(|_| usage()))
    }
    pub fn usize(&self, k: &str, default: usize) -> usize {
        self.u64(k, default as u64) as usize
    }
    pub fn seed(&self) -> u64 {
        if let Some(s) = self.map.get("seed") {
            return s.parse().unwrap_or(1);
        }
        std::env::var("VERIF_SEED").ok().and_then(|s| s.parse().ok()).unwrap_or(1)
    }
    pub fn rng(&self) -> StdRng {
        StdRng::seed_from_u64(self.seed())
    }
}
fn usage() -> ! {
    eprintln!("usage: vh <driver> --out FILE [--seed N] [--only-sid N] [driver options]");
    std::process::exit(2)
}

// ---------------------------------------------------------------- event writer
/// ndjson writer.  Every event carries its scenario id `sid`; with `--only-sid N`
/// only that scenario is written (the driver still runs the others, so a replay
/// reproduces the same RNG stream and the same scenario).
pub struct Out {
    w: std::io::BufWriter<std::fs::File>,
    only: Option<u64>,
    pub scenarios: u64,
    pub events: u64,
}
impl Out {
    pub fn create(args: &Args) -> Self {
        let path = args.opt("out").unwrap_or_else(|| usage());
        let f = std::fs::File::create(&path).unwrap_or_else(|e| {
            eprintln!("cannot create {path}: {e}");
            std::process::exit(2)
        });
        Out {
            w: std::io::BufWriter::with_capacity(1 << 20, f),
            only: args.opt("only-sid").map(|s| s.parse().unwrap()),
            scenarios: 0,
            events: 0,
        }
    }
    pub fn wants(&self, sid: u64) -> bool {
        self.only.map_or(true, |o| o == sid)
    }
    /// Writes one event.  `fields` must be a JSON object; `sid` and `ev` are added.
    pub fn ev(&mut self, sid: u64, ev: &str, fields: Value) {
        if !self.wants(sid) {
            return;
        }
        let mut m = match fields {
            Value::Object(m) => m,
            Value::Null => Map::new(),
            other => panic!("event fields must be an object: {other}"),
        };
        m.insert("sid".into(), json!(sid));
        m.insert("ev".into(), json!(ev));
        if ev == "Reset" {
            self.scenarios += 1;
        }
        self.events += 1;
        serde_json::to_writer(&mut self.w, &Value::Object(m)).unwrap();
        self.w.write_all(b"\n").unwrap();
    }
    pub fn finish(mut self) {
        self.w.flush().unwrap();
        eprintln!("scenarios={} events={}", self.scenarios, self.events);
    }
}

// ---------------------------------------------------------------- projections
/// Bytes as a JSON array of integers (TLC reads it as a tuple).
pub fn ints(b: &[u8]) -> Value {
    Value::Array(b.iter().map(|x| json!(*x)).collect())
}
/// A string as Unicode scalar values.
pub fn cps(s: &str) -> Value {
    Value::Array(s.chars().map(|c| json!(c as u32)).collect())
}
/// A number that may exceed 2^31, as a tuple of decimal digits (most significant first).
pub fn digits<T: ToString>(n: T) -> Value {
    Value::Array(n.to_string().bytes().map(|b| json!(b - b'0')).collect())
}
/// 31-bit FNV-1a digest: an opaque identity for large payloads.
pub fn digest(b: &[u8]) -> u64 {
    let mut h: u32 = 0x811c_9dc5;
    for x in b {
        h ^= u32::from(*x);
        h = h.wrapping_mul(0x0100_0193);
    }
    u64::from(h & 0x7fff_ffff)
}
pub struct Digester(u32, pub u64);
impl Digester {
    pub fn new() -> Self {
        Digester(0x811c_9dc5, 0)
    }
    pub fn update(&mut self, b: &[u8]) {
        for x in b {
            self.0 ^= u32::from(*x);
            self.0 = self.0.wrapping_mul(0x0100_0193);
        }
        self.1 += b.len() as u64;
    }
    pub fn value(&self) -> u64 {
        u64::from(self.0 & 0x7fff_ffff)
    }
}

/// Name of an error value without its payload: `Foo(bar)` -> `Foo`.
pub fn variant_name<T: std::fmt::Debug>(e: &T) -> String {
    let s = format!("{e:?}");
    s.split(|c: char| c == '(' || c == '{' || c == ' ').next().unwrap().to_string()
}

// ---------------------------------------------------------------- panic capture
static PANIC_LOCATIONS: Mutex<Vec<String>> = Mutex::new(Vec::new());
/// Installs a panic hook that records locations and prints nothing.
pub fn quiet_panics() {
    std::panic::set_hook(Box::new(|info| {
        let loc = info.location().map_or_else(|| "?".to_string(), |l| format!("{}:{}", l.file(), l.line()));
        if std::env::var_os("VERIF_LOUD").is_some() {
            eprintln!("panic at {loc}: {info}");
        }
        PANIC_LOCATIONS.lock().unwrap_or_else(|e| e.into_inner()).push(loc);
    }));
}
/// Takes the recorded panic locations.
pub fn take_panics() -> Vec<String> {
    std::mem::take(&mut *PANIC_LOCATIONS.lock().unwrap_or_else(|e| e.into_inner()))
}
/// Panic locations inside servlin's own sources (handler panics injected by a scenario
/// originate in the harness and are not counted).
pub fn servlin_panics(locs: &[String]) -> Vec<String> {
    locs.iter().filter(|l| l.contains("/repo/src") || l.starts_with("src/")).cloned().collect()
}
pub fn catch<T>(f: impl FnOnce() -> T) -> Result<T, ()> {
    std::panic::catch_unwind(std::panic::AssertUnwindSafe(f)).map_err(|_| ())
}

// ---------------------------------------------------------------- poll loop
fn noop_raw() -> RawWaker {
    fn clone(p: *const ()) -> RawWaker {
        unsafe { Arc::increment_strong_count(p as *const AtomicU64) };
        RawWaker::new(p, &VT)
    }
    fn wake(p: *const ()) {
        let a = unsafe { Arc::from_raw(p as *const AtomicU64) };
        a.fetch_add(1, Ordering::SeqCst);
    }
    fn wake_by_ref(p: *const ()) {
        let a = unsafe { &*(p as *const AtomicU64) };
        a.fetch_add(1, Ordering::SeqCst);
    }
    fn drop(p: *const ()) {
        unsafe { Arc::decrement_strong_count(p as *const AtomicU64) };
    }
    static VT: RawWakerVTable = RawWakerVTable::new(clone, wake, wake_by_ref, drop);
    let a = Arc::new(AtomicU64::new(0));
    RawWaker::new(Arc::into_raw(a) as *const (), &VT)
}
pub fn counting_waker() -> Waker {
    unsafe { Waker::from_raw(noop_raw()) }
}
/// Polls `fut` up to `budget` times.  `None` means it was still pending: a hang.
pub fn poll_budget<F: Future>(fut: F, budget: usize) -> Option<F::Output> {
    let waker = counting_waker();
    let mut cx = Context::from_waker(&waker);
    let mut fut = std::pin::pin!(fut);
    for _ in 0..budget {
        if let Poll::Ready(v) = fut.as_mut().poll(&mut cx) {
            return Some(v);
        }
    }
    None
}
/// Polls once.
pub fn poll_once<F: Future + Unpin>(fut: &mut F) -> Poll<F::Output> {
    let waker = counting_waker();
    let mut cx = Context::from_waker(&waker);
    Pin::new(fut).poll(&mut cx)
}

// ---------------------------------------------------------------- scripted reader
#[derive(Clone, Debug)]
pub enum RStep {
    /// deliver at most this many of the remaining bytes in one read
    Data(usize),
    Pending,
    Err,
}
/// An `AsyncRead` that delivers `data` cut at the planned places.  After the plan is
/// exhausted it delivers everything that is left, then EOF (or an error).
pub struct ScriptedReader {
    pub data: Vec<u8>,
    pub pos: usize,
    pub plan: Vec<RStep>,
    pub step: usize,
    pub polls: usize,
    pub end_with_err: bool,
    /// offer more than the caller asked for?  (never: a reader cannot)
    pub max_per_read: usize,
}
impl ScriptedReader {
    pub fn new(data: Vec<u8>, plan: Vec<RStep>) -> Self {
        ScriptedReader { data, pos: 0, plan, step: 0, polls: 0, end_with_err: false, max_per_read: usize::MAX }
    }
    /// Cuts `data` at the given absolute offsets.
    pub fn with_cuts(data: Vec<u8>, cuts: &[usize]) -> Self {
        let mut plan = vec![];
        let mut prev = 0;
        for &c in cuts {
            if c > prev && c < data.len() {
                plan.push(RStep::Data(c - prev));
                prev = c;
            }
        }
        Self::new(data, plan)
    }
    pub fn unread(&self) -> usize {
        self.data.len() - self.pos
    }
}
impl futures_io::AsyncRead for ScriptedReader {
    fn poll_read(mut self: Pin<&mut Self>, cx: &mut Context<'_>, buf: &mut [u8]) -> Poll<std::io::Result<usize>> {
        self.polls += 1;
        if buf.is_empty() {
            return Poll::Ready(Ok(0));
        }
        let want = if self.step < self.plan.len() {
            match self.plan[self.step].clone() {
                RStep::Pending => {
                    self.step += 1;
                    cx.waker().wake_by_ref();
                    return Poll::Pending;
                }
                RStep::Err => {
                    self.step += 1;
                    return Poll::Ready(Err(std::io::Error::new(std::io::ErrorKind::Other, "scripted read error")));
                }
                RStep::Data(k) => k,
            }
        } else {
            usize::MAX
        };
        if self.pos >= self.data.len() {
            if self.end_with_err {
                return Poll::Ready(Err(std::io::Error::new(std::io::ErrorKind::ConnectionReset, "scripted reset")));
            }
            return Poll::Ready(Ok(0));
        }
        let k = want.min(buf.len()).min(self.data.len() - self.pos).min(self.max_per_read);
        let pos = self.pos;
        buf[..k].copy_from_slice(&self.data[pos..pos + k]);
        self.pos += k;
        if self.step < self.plan.len() {
            if let RStep::Data(rem) = self.plan[self.step].clone() {
                if rem <= k {
                    self.step += 1;
                } else {
                    let s = self.step;
                    self.plan[s] = RStep::Data(rem - k);
                }
            }
        }
        Poll::Ready(Ok(k))
    }
}

// ---------------------------------------------------------------- scripted writer
#[derive(Clone, Debug)]
pub enum WMode {
    /// accept everything offered
    All,
    /// accept at most k bytes per call
    AtMost(usize),
    /// accept at most k bytes per call, and return Pending before every call
    AtMostWithPending(usize),
    /// sizes cycle through the list
    Cycle(Vec<usize>),
}
/// An `AsyncWrite` that accepts bytes according to `mode` and fails once `fail_after`
/// bytes have been accepted.
pub struct ScriptedWriter {
    pub got: Vec<u8>,
    pub mode: WMode,
    pub fail_after: Option<usize>,
    /// the kind of the scripted write error, and whether the writer accepts bytes again after reporting it once (an
    /// implementation that retries after an error must not put anything on the wire twice)
    pub fail_kind: std::io::ErrorKind,
    pub fail_once: bool,
    pub calls: usize,
    pend_next: bool,
    pub flushed: usize,
    pub closed: bool,
    /// called once when the first byte has been accepted (used to remove a body file
    /// between head and body)
    pub on_first_write: Option<Box<dyn FnOnce() + Send>>,
}
impl ScriptedWriter {
    pub fn new(mode: WMode) -> Self {
        ScriptedWriter { got: vec![], mode, fail_after: None, fail_kind: std::io::ErrorKind::BrokenPipe, fail_once: false, calls: 0, pend_next: true, flushed: 0, closed: false, on_first_write: None }
    }
}
impl futures_io::AsyncWrite for ScriptedWriter {
    fn poll_write(mut self: Pin<&mut Self>, cx: &mut Context<'_>, buf: &[u8]) -> Poll<std::io::Result<usize>> {
        if let WMode::AtMostWithPending(_) = self.mode {
            if self.pend_next {
                self.pend_next = false;
                cx.waker().wake_by_ref();
                return Poll::Pending;
            }
            self.pend_next = true;
        }
        self.calls += 1;
        let mut k = match &self.mode {
            WMode::All => buf.len(),
            WMode::AtMost(k) | WMode::AtMostWithPending(k) => (*k).min(buf.len()),
            WMode::Cycle(v) => v[(self.calls - 1) % v.len()].min(buf.len()),
        };
        if let Some(limit) = self.fail_after {
            let room = limit.saturating_sub(self.got.len());
            if room == 0 {
                if self.fail_once {
                    self.fail_after = None;
                }
                return Poll::Ready(Err(std::io::Error::new(self.fail_kind, "scripted write error")));
            }
            k = k.min(room);
        }
        if k == 0 && !buf.is_empty() {
            k = 1;
        }
        self.got.extend_from_slice(&buf[..k]);
        if k > 0 {
            if let Some(f) = self.on_first_write.take() {
                f();
            }
        }
        Poll::Ready(Ok(k))
    }
    fn poll_flush(mut self: Pin<&mut Self>, _cx: &mut Context<'_>) -> Poll<std::io::Result<()>> {
        self.flushed += 1;
        Poll::Ready(Ok(()))
    }
    fn poll_close(mut self: Pin<&mut Self>, _cx: &mut Context<'_>) -> Poll<std::io::Result<()>> {
        self.closed = true;
        Poll::Ready(Ok(()))
    }
}

// ---------------------------------------------------------------- helpers
pub fn pick(r: &mut StdRng, pool: &[u8], lo: usize, hi: usize) -> Vec<u8> {
    (0..r.gen_range(lo..=hi)).map(|_| *pool.choose(r).unwrap()).collect()
}
pub fn random_cuts(r: &mut StdRng, len: usize) -> Vec<usize> {
    if len < 2 {
        return vec![];
    }
    match r.gen_range(0..4) {
        0 => vec![],
        1 => (1..len).collect(),
        _ => {
            let n = r.gen_range(1..=4.min(len - 1));
            let mut v: Vec<usize> = (0..n).map(|_| r.gen_range(1..len)).collect();
            v.sort_unstable();
            v.dedup();
            v
        }
    }
}
pub fn localhost(port: u16) -> std::net::SocketAddr {
    std::net::SocketAddr::V4(std::net::SocketAddrV4::new(std::net::Ipv4Addr::LOCALHOST, port))
}
/// Runs `f(chunk_index)` on `threads` threads and returns the results in order.
pub fn parallel<T: Send + 'static>(threads: usize, f: impl Fn(usize) -> T + Send + Sync + 'static) -> Vec<T> {
    let f = Arc::new(f);
    let hs: Vec<_> = (0..threads)
        .map(|i| {
            let f = f.clone();
            std::thread::spawn(move || f(i))
        })
        .collect();
    hs.into_iter().map(|h| h.join().unwrap()).collect()
}

// ---------------------------------------------------------------- patience
/// Eventually-observations have generous deadlines (seconds against expected milliseconds).  When the code under test
/// is broken in a way that makes EVERY scenario run into its deadline, a driver with thousands of scenarios would take
/// hours; after a handful of missed deadlines the point is made and the driver stops generating further scenarios
/// (what it has recorded is judged as usual).
static MISSED_DEADLINES: std::sync::atomic::AtomicU32 = std::sync::atomic::AtomicU32::new(0);
pub fn missed_deadline() {
    MISSED_DEADLINES.fetch_add(1, Ordering::SeqCst);
}
pub fn give_up() -> bool {
    MISSED_DEADLINES.load(Ordering::SeqCst) >= 12
}
