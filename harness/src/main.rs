//! `vh <driver> --out FILE [options]`: conformance drivers for the TLA+ specification
//! of servlin.  Each driver exercises the real code and records one ndjson event per
//! specification action; TLC judges the recording (see /verif/DESIGN.md).
mod common;
mod drivers;

fn main() {
    let args = common::Args::parse();
    common::quiet_panics();
    let out = common::Out::create(&args);
    drivers::run(&args, out);
}
