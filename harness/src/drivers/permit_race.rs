//! C13: `permit-race` -- a connection accepted exactly while the permit is being revoked.  In a module (and cargo feature)
//! of its own because it is the only driver that calls `accept_loop` directly.
use super::server::{count, emit, wait_until};
use crate::common::*;
use serde_json::json;
use servlin::internal::*;
use std::sync::{Arc, Mutex};
use std::time::{Duration, Instant};

// ------------------------------------------------------------------------------ permit-race
/// C13: a connection accepted exactly while the permit is being revoked.  `accept_loop` is run with a handler that
/// keeps the connection's permit and token; a spinning thread revokes the server's permit as soon as the hook log
/// shows `AccAccepted` (emitted immediately before the connection's sub-permit is created).  Once the revocation has
/// returned, a permit that was handed to a connection must be revoked -- otherwise that connection would go on
/// serving requests for ever.  The first `full` trials are recorded event by event (the whole hook log plus the
/// harness's connect / revoke / connection begin / end) and judged by ServerSteps!Apply like any server run; of the
/// others only a missed revocation is recorded.
pub fn run_permit_race(args: &Args, mut out: Out) {
    let trials = args.u64("trials", 20_000);
    let full = args.u64("full", 300);
    let loops = args.usize("loops", 6); // accept loops sharing the permit in the trials that are not recorded in full
    safina::timer::start_timer_thread();
    let executor = safina::executor::Executor::new(loops.max(2), 2).unwrap();
    // the application's logger has stopped (its receiver is gone): whatever the accept loop wants to report on its way out
    // fails, and that must not keep it from leaving properly
    let (ls, lr) = std::sync::mpsc::sync_channel::<servlin::log::internal::LogEvent>(1);
    drop(lr);
    let _dead_logger = servlin::log::set_global_logger(ls).ok();
    let _ = take_panics();
    let mut panicked_trials = 0u64;
    let mut missed = 0u64;
    let mut handled = 0u64;
    let mut stuck = 0u64; // trials in which an accept loop had not left 2 s after the revocation returned
    for t in 1..=trials {
        if !out.wants(t) {
            continue;
        }
        if stuck >= 8 {
            break; // the point is made; every further trial would cost another 2 s
        }
        let nloops = if t <= full { 1 } else { loops };
        servlin::verif::start();
        let top = permit::Permit::new();
        let slot: Arc<Mutex<Vec<(permit::Permit, Token, u16, async_net::TcpStream)>>> = Arc::new(Mutex::new(vec![]));
        let mut addrs = vec![];
        for _ in 0..nloops {
            let slot2 = slot.clone();
            let listener = executor.block_on(servlin::internal::listen_127_0_0_1_any_port()).unwrap();
            addrs.push(listener.local_addr().unwrap());
            let handler = move |sub: permit::Permit, token: Token, stream: async_net::TcpStream, peer: std::net::SocketAddr| {
                emit("ConnBegin", u64::from(peer.port()), 0);
                slot2.lock().unwrap().push((sub, token, peer.port(), stream));
            };
            executor.spawn(servlin::internal::accept_loop(top.new_sub(), listener, TokenSet::new(1), handler));
        }
        let delay = (t % 64) as u32 * 4; // sweep the alignment of the revocation with the creation of the sub-permit
        let revoker = std::thread::spawn(move || {
            // "the harness is about to drop the permit" is logged before the spinning starts, so that nothing (no
            // mutex hand-off for the log) sits between the detection and the drop
            emit("RevokeBegin", 0, 0);
            let deadline = Instant::now() + Duration::from_secs(2);
            loop {
                if servlin::verif::snapshot().iter().any(|r| r.kind == "AccAccepted") || Instant::now() > deadline {
                    for _ in 0..delay {
                        std::hint::spin_loop();
                    }
                    drop(top);
                    emit("RevokeDone", 0, 0);
                    return;
                }
                std::hint::spin_loop();
            }
        });
        let mut clients = vec![];
        for addr in &addrs {
            emit("ClientConnect", 0, 0);
            clients.push(std::net::TcpStream::connect_timeout(addr, Duration::from_millis(500)));
        }
        revoker.join().unwrap();
        // the revocation has returned; wait until every accept loop has left
        let left = wait_until(2, || count("AccRevokedExit") + count("AccRevokedInWait") + count("AccRevokedAfterAccept") >= nloops);
        if !left {
            stuck += 1;
        }
        std::thread::sleep(Duration::from_micros(100));
        let taken: Vec<(permit::Permit, Token, u16, async_net::TcpStream)> = std::mem::take(&mut *slot.lock().unwrap());
        let mut miss = false;
        let mut streams = vec![];
        for (sub, token, port, stream) in taken {
            handled += 1;
            miss |= !sub.is_revoked();
            emit("ConnEnd", u64::from(port), 0);
            drop(token);
            streams.push(stream);
        }
        // the clients close first and with a reset (SO_LINGER 0): no socket is left in TIME_WAIT, so tens of thousands
        // of trials do not run out of ephemeral ports
        for c in clients.into_iter().flatten() {
            use std::os::fd::AsRawFd;
            let lg = libc::linger { l_onoff: 1, l_linger: 0 };
            unsafe {
                libc::setsockopt(c.as_raw_fd(), libc::SOL_SOCKET, libc::SO_LINGER, std::ptr::addr_of!(lg).cast(), std::mem::size_of::<libc::linger>() as u32);
            }
            drop(c);
        }
        drop(streams);
        wait_until(1, || count("TokenReturn") >= count("ConnEnd") + count("AccRevokedExit") + count("AccRevokedAfterAccept"));
        let recs = servlin::verif::take();
        if miss {
            missed += 1;
        }
        let server_panics = servlin_panics(&take_panics());
        if !server_panics.is_empty() && panicked_trials < 5 {
            panicked_trials += 1;
            out.ev(t, "Reset", json!({"max": 1, "clients": nloops, "refill": false}));
            out.ev(t, "AcceptTaskPanicked", json!({"a": 0, "b": 0, "at": server_panics}));
            continue;
        }
        if !left {
            out.ev(t, "Reset", json!({"max": 1, "clients": nloops, "refill": false}));
            out.ev(t, "StopTimeout", json!({"a": 0, "b": 0}));
        } else if t <= full {
            out.ev(t, "Reset", json!({"max": 1, "clients": 1, "refill": false}));
            for rec in recs {
                out.ev(t, rec.kind, json!({"a": rec.a, "b": rec.b, "seq": rec.seq}));
            }
            if miss {
                out.ev(t, "PermitMissedRevocation", json!({"a": 0, "b": 0}));
            }
            out.ev(t, "Quiesce", json!({"a":0,"b":0,"aborted": []}));
        } else if miss {
            // (several accept loops share one log in these trials: only the observation itself is recorded)
            out.ev(t, "Reset", json!({"max": 1, "clients": nloops, "refill": false}));
            out.ev(t, "PermitMissedRevocation", json!({"a": 0, "b": 0}));
        }
    }
    eprintln!("trials={trials} connections handed to a handler={handled} whose permit was never revoked={missed}");
    out.ev(trials + 1, "Reset", json!({"max": 1, "clients": 0, "refill": false}));
    out.ev(trials + 1, "PermitRaceSummary", json!({"a": trials, "b": missed, "handled": handled}));
    out.finish();
}
