//! C18.  `logger-threads` runs 1..8 real threads, each a seeded random program over
//! {attach thread tag, clear, log at each level with 0..6 tags, wrapped handler returning
//! Ok / Err (with / without response), install logger, drop the guard, kill a receiver}.
//! Every call is stamped at its start and at its end from one atomic counter; every event
//! that reached a harness-held logger or the stdout default (fd 1 is redirected to a file)
//! is collected at the end of the run.  The harness projects lexically only: an event is its
//! sink, its level and its (name, raw value text) members in line order.  Which sink an event
//! should have reached and what it should contain is decided by TLC (Trace_Logger).
use crate::common::*;
use fixed_buffer::FixedBuf;
use rand::prelude::*;
use serde_json::{json, Value};
use servlin::internal::read_http_request;
use servlin::log::internal::{lock_global_logger, ClearGlobalLoggerOnDrop, GlobalLoggerState, LogEvent, Tag};
use servlin::log::{TagList,
    add_thread_local_log_tag, clear_thread_local_log_tags, debug, error, info, log_request_and_response, set_global_logger, Level,
};
use servlin::{Error, Request, Response};
use std::io::{Read, Seek, SeekFrom};
use std::sync::atomic::{AtomicU64, Ordering};
use std::sync::mpsc::{sync_channel, Receiver, SyncSender};
use std::sync::{Arc, Barrier, Mutex};
use std::time::{Duration, Instant, SystemTime};

static CLOCK: AtomicU64 = AtomicU64::new(1);
fn stamp() -> u64 {
    CLOCK.fetch_add(1, Ordering::SeqCst)
}

const TAG_NAMES: [&str; 7] = ["ta", "tb", "path", "http_method", "request_body_len", "msg", "tc"];
const CALL_NAMES: [&str; 8] = ["ca", "cb", "request_body_len", "path", "response_body_len", "msg", "request_body", "http_method"];

/// Splits `"name":value,"name":value` into (name, raw value text) pairs.  Purely lexical.
fn lex_members(s: &str) -> Option<Vec<(String, String)>> {
    let b = s.as_bytes();
    let mut i = 0;
    let mut out = vec![];
    let read_string = |mut j: usize| -> Option<usize> {
        // b[j] == '"'; returns the index after the closing quote
        j += 1;
        while j < b.len() {
            match b[j] {
                b'\\' => j += 2,
                b'"' => return Some(j + 1),
                _ => j += 1,
            }
        }
        None
    };
    while i < b.len() {
        if b[i] != b'"' {
            return None;
        }
        let e = read_string(i)?;
        let name = s[i + 1..e - 1].to_string();
        i = e;
        if b.get(i) != Some(&b':') {
            return None;
        }
        i += 1;
        let vstart = i;
        if b.get(i) == Some(&b'"') {
            i = read_string(i)?;
        } else {
            while i < b.len() && b[i] != b',' {
                i += 1;
            }
        }
        out.push((name, s[vstart..i].to_string()));
        if i < b.len() {
            if b[i] != b',' {
                return None;
            }
            i += 1;
        }
    }
    Some(out)
}

fn tags_json(m: &[(String, String)]) -> Value {
    Value::Array(m.iter().map(|(n, v)| json!({"n":n,"v":v})).collect())
}

/// A jsonl line `{"time":..,"level":"info",<tags>,"time_ns":N}` as (level, tags).
fn project_jsonl(line: &str) -> Value {
    let t = line.trim_end_matches('\n');
    let inner = t.strip_prefix('{').and_then(|x| x.strip_suffix('}'));
    let Some(m) = inner.and_then(lex_members) else { return json!({"level":"?","tags":[{"n":"unparseable","v":t}]}) };
    if m.len() < 3 || m[0].0 != "time" || m[1].0 != "level" || m[m.len() - 1].0 != "time_ns" {
        return json!({"level":"?","tags":[{"n":"unparseable","v":t}]});
    }
    json!({"level":m[1].1.trim_matches('"'),"tags":tags_json(&m[2..m.len() - 1])})
}

/// A line of the stdout default logger: `<time> <level> <tags>`.
fn project_stdout(line: &str) -> Value {
    let mut it = line.splitn(3, ' ');
    let (_time, level, rest) = (it.next().unwrap_or(""), it.next().unwrap_or("?"), it.next().unwrap_or(""));
    match lex_members(rest) {
        Some(m) => json!({"level":level,"tags":tags_json(&m)}),
        None => json!({"level":"?","tags":[{"n":"unparseable","v":line}]}),
    }
}

fn redirect_stdout(path: &std::path::Path) {
    use std::os::fd::AsRawFd;
    let f = std::fs::OpenOptions::new().create(true).write(true).truncate(true).open(path).unwrap();
    let rc = unsafe { libc::dup2(f.as_raw_fd(), 1) };
    assert!(rc >= 0);
    std::mem::forget(f);
}

struct Shared {
    /// the loggers' queues hold one or two events only and are emptied by a pump thread while the run goes on: logging
    /// calls really wait for room (as they do on the stdout default's 100-event queue under load)
    small: bool,
    senders: Vec<SyncSender<LogEvent>>,
    receivers: Mutex<Vec<Option<Receiver<LogEvent>>>>,
    guards: Mutex<Vec<ClearGlobalLoggerOnDrop>>,
    delivered: Mutex<Vec<Value>>,
    ops: Mutex<Vec<Value>>,
}

fn drain(id: usize, r: &Receiver<LogEvent>, into: &mut Vec<Value>) {
    while let Ok(ev) = r.try_recv() {
        let mut b = Vec::new();
        ev.write_jsonl(&mut b).unwrap();
        let mut v = project_jsonl(&String::from_utf8_lossy(&b));
        v.as_object_mut().unwrap().insert("sink".into(), json!(id));
        into.push(v);
    }
}

fn make_request(r: &mut StdRng, n: u64) -> Request {
    let method = *["GET", "POST", "PUT", "DELETE"].choose(r).unwrap();
    let path = format!("/p{n}/x");
    let extra = match r.gen_range(0..3) {
        0 => String::new(),
        1 => format!("content-length: {}\r\n", r.gen_range(0..5000)),
        _ => "transfer-encoding: chunked\r\n".to_string(),
    };
    let wire = format!("{method} {path} HTTP/1.1\r\n{extra}\r\n");
    let mut buf: FixedBuf<8192> = FixedBuf::new();
    let mut rd = ScriptedReader::new(wire.into_bytes(), vec![]);
    poll_budget(read_http_request(localhost(1), &mut buf, &mut rd), 100).unwrap().unwrap()
}

struct ThreadCtx<'a> {
    t: usize,
    r: StdRng,
    sh: &'a Shared,
    next: u64,
    nloggers: usize,
}
impl ThreadCtx<'_> {
    fn opid(&mut self) -> u64 {
        self.next += 1;
        (self.t as u64) * 100_000 + self.next
    }
    fn rec(&self, v: Value) {
        self.sh.ops.lock().unwrap().push(v);
    }
    fn add_tag(&mut self) {
        let id = self.opid();
        let n = *TAG_NAMES.choose(&mut self.r).unwrap();
        let v = format!("t{}v{}", self.t, id);
        let s0 = stamp();
        let res = catch(|| add_thread_local_log_tag(n, v.clone()));
        let e0 = stamp();
        self.rec(json!({"t":self.t,"op":"AddTag","n":n,"v":format!("\"{v}\""),"start":s0,"end":e0,"panic":res.is_err()}));
    }
    fn clear(&mut self) {
        let s0 = stamp();
        let res = catch(clear_thread_local_log_tags);
        let e0 = stamp();
        self.rec(json!({"t":self.t,"op":"Clear","start":s0,"end":e0,"panic":res.is_err()}));
    }
    fn log(&mut self) {
        let id = self.opid();
        // (one call in twenty carries dozens of tags: "all other tags in the order given" must hold for long lists too)
        let ncall = if self.r.gen_bool(0.05) { self.r.gen_range(30..=45) } else { self.r.gen_range(0..=6) };
        let mut tags: Vec<Tag> = vec![];
        let mut desc: Vec<Value> = vec![];
        let mpos = self.r.gen_range(0..=ncall);
        for k in 0..=ncall {
            if k == mpos {
                tags.push(Tag::new("m", id));
                desc.push(json!({"n":"m","v":id.to_string()}));
            }
            if k < ncall {
                let n = *CALL_NAMES.choose(&mut self.r).unwrap();
                if self.r.gen_bool(0.2) {
                    let v = self.r.gen_range(0..1000u32);
                    tags.push(Tag::new(n, v));
                    desc.push(json!({"n":n,"v":v.to_string()}));
                } else {
                    let v = format!("c{id}k{k}");
                    tags.push(Tag::new(n, v.clone()));
                    desc.push(json!({"n":n,"v":format!("\"{v}\"")}));
                }
            }
        }
        let msg = format!("msg{id}");
        let which = self.r.gen_range(0..4);
        let s0 = stamp();
        let res = catch(|| match which {
            0 => error(msg.clone(), TagList(tags.clone())).is_ok(),
            1 => info(msg.clone(), TagList(tags.clone())).is_ok(),
            2 => debug(msg.clone(), TagList(tags.clone())).is_ok(),
            _ => servlin::log::internal::log(SystemTime::now(), Level::Info, TagList(tags.clone())).is_ok(),
        });
        let e0 = stamp();
        let level = ["error", "info", "debug", "info"][which];
        self.rec(json!({"t":self.t,"op":"Log","m":id.to_string(),"level":level,"hasMsg":which < 3,"msg":format!("\"{msg}\""),
                        "call":desc,"start":s0,"end":e0,"ok":res.unwrap_or(false),"panic":res.is_err()}));
    }
    fn install(&mut self) {
        let id = self.r.gen_range(1..=self.nloggers);
        let s0 = stamp();
        let res = catch(|| set_global_logger(self.sh.senders[id - 1].clone()));
        let e0 = stamp();
        let ok = matches!(res, Ok(Ok(_)));
        if let Ok(Ok(g)) = res {
            self.sh.guards.lock().unwrap().push(g);
            self.rec(json!({"t":self.t,"op":"Install","id":id,"start":s0,"end":e0,"ok":ok,"panic":false}));
        } else {
            self.rec(json!({"t":self.t,"op":"Install","id":id,"start":s0,"end":e0,"ok":ok,"panic":res.is_err()}));
        }
    }
    fn drop_guard(&mut self) {
        let g = self.sh.guards.lock().unwrap().pop();
        if let Some(g) = g {
            let s0 = stamp();
            let res = catch(move || drop(g));
            let e0 = stamp();
            self.rec(json!({"t":self.t,"op":"DropGuard","start":s0,"end":e0,"panic":res.is_err()}));
        }
    }
    fn kill(&mut self) {
        if self.nloggers < 2 {
            return;
        }
        let id = self.r.gen_range(2..=self.nloggers);
        let rx = self.sh.receivers.lock().unwrap()[id - 1].take();
        if let Some(rx) = rx {
            let s0 = stamp();
            if self.sh.small {
                // a logging call may be waiting for room in this very queue while it holds the global-logger mutex: keep
                // emptying the queue until the mutex is ours
                let stop = Arc::new(std::sync::atomic::AtomicBool::new(false));
                let stop2 = stop.clone();
                let helper = std::thread::spawn(move || {
                    let mut got = vec![];
                    while !stop2.load(std::sync::atomic::Ordering::SeqCst) {
                        drain(id, &rx, &mut got);
                        std::thread::yield_now();
                    }
                    (rx, got)
                });
                let lock = lock_global_logger();
                stop.store(true, std::sync::atomic::Ordering::SeqCst);
                let (rx, mut got) = helper.join().unwrap();
                drain(id, &rx, &mut got);
                drop(rx);
                drop(lock);
                self.sh.delivered.lock().unwrap().extend(got);
            } else {
                // no send is in progress while the global-logger mutex is held: everything sent so far is drained
                let lock = lock_global_logger();
                let mut got = vec![];
                drain(id, &rx, &mut got);
                drop(rx);
                drop(lock);
                self.sh.delivered.lock().unwrap().extend(got);
            }
            let e0 = stamp();
            self.rec(json!({"t":self.t,"op":"Kill","id":id,"start":s0,"end":e0,"panic":false}));
        }
    }
    fn wrapped(&mut self) {
        let id = self.opid();
        let req = make_request(&mut self.r, id);
        let body_len = req.body.len().map_or("none".to_string(), |n| n.to_string());
        let reqv = json!({"method":format!("\"{}\"", req.method()),"path":format!("\"{}\"", req.url().path()),"id":req.id.to_string(),"bodyLen":body_len});
        let kind = self.r.gen_range(0..12);
        let inner = self.r.gen_range(0..4);
        let mut start_end = 0u64;
        let mut outcome = json!(null);
        let t = self.t;
        let res = catch(|| {
            log_request_and_response(req, |_req| {
                let s = stamp();
                self.rec(json!({"t":t,"op":"WrapBegin","req":reqv,"start":s,"end":stamp(),"panic":false}));
                for _ in 0..inner {
                    match self.r.gen_range(0..10) {
                        0..=3 => self.add_tag(),
                        4 => self.clear(),
                        _ => self.log(),
                    }
                }
                // the wrapper's own event is found by this thread tag (and by having no "m" tag)
                let s0 = stamp();
                add_thread_local_log_tag("wm", id);
                self.rec(json!({"t":t,"op":"AddTag","n":"wm","v":id.to_string(),"start":s0,"end":stamp(),"panic":false}));
                let no_resp = json!({"code":"500","bodyLen":"0"});
                let rj = |r: &Response| json!({"code":r.code.to_string(),"bodyLen":r.body.len().map_or("none".to_string(), |n| n.to_string())});
                let result: Result<Response, Error> = match kind {
                    0 => {
                        let r = Response::new(200 + (id % 7) as u16);
                        outcome = json!({"k":"Ok","resp":rj(&r),"hasResp":true,"hasMsg":false,"msg":"","hasBt":false,"tags":[]});
                        Ok(r)
                    }
                    1 => {
                        let r = Response::text(200, "x".repeat((id % 50) as usize));
                        outcome = json!({"k":"Ok","resp":rj(&r),"hasResp":true,"hasMsg":false,"msg":"","hasBt":false,"tags":[]});
                        Ok(r)
                    }
                    2 => {
                        let r = Response::text(404, "nf");
                        outcome = json!({"k":"Err","resp":rj(&r),"hasResp":true,"hasMsg":false,"msg":"","hasBt":false,
                                         "tags":[{"n":"et","v":format!("\"e{id}\"")}]});
                        Err(Error::client_error(r).with_tag("et", format!("e{id}")))
                    }
                    3 => {
                        outcome = json!({"k":"Err","resp":no_resp,"hasResp":false,"hasMsg":true,"msg":format!("\"boom{id}\""),"hasBt":false,
                                         "tags":[{"n":"path","v":format!("\"e{id}\"")},{"n":"et","v":"7"}]});
                        Err(Error::new().with_tag("path", format!("e{id}")).with_tag("et", 7u8).with_msg(format!("boom{id}")))
                    }
                    4 => {
                        outcome = json!({"k":"Err","resp":no_resp,"hasResp":false,"hasMsg":true,"msg":format!("\"srv{id}\""),"hasBt":true,"tags":[]});
                        Err(Error::server_error(format!("srv{id}")))
                    }
                    5 => {
                        outcome = json!({"k":"Err","resp":no_resp,"hasResp":false,"hasMsg":false,"msg":"","hasBt":false,"tags":[]});
                        Err(Error::new())
                    }
                    // every other route to an Error: the conversions, a message wrapped twice, a server error that brings its own response
                    6 => {
                        let r = Response::text(403, "f".repeat((id % 9) as usize));
                        outcome = json!({"k":"Err","resp":rj(&r),"hasResp":true,"hasMsg":false,"msg":"","hasBt":false,"tags":[]});
                        Err(r.into())
                    }
                    7 => {
                        let m = format!("str{id}");
                        outcome = json!({"k":"Err","resp":no_resp,"hasResp":false,"hasMsg":true,"msg":format!("\"{m}\""),"hasBt":true,"tags":[]});
                        Err(m.as_str().into())
                    }
                    8 => {
                        let m = format!("string{id}");
                        outcome = json!({"k":"Err","resp":no_resp,"hasResp":false,"hasMsg":true,"msg":format!("\"{m}\""),"hasBt":true,"tags":[]});
                        Err(m.into())
                    }
                    9 => {
                        let e = std::io::Error::new(std::io::ErrorKind::Other, format!("io{id}"));
                        outcome = json!({"k":"Err","resp":no_resp,"hasResp":false,"hasMsg":true,"msg":format!("\"{e}\""),"hasBt":true,"tags":[]});
                        Err(e.into())
                    }
                    10 => {
                        outcome = json!({"k":"Err","resp":no_resp,"hasResp":false,"hasMsg":true,"msg":format!("\"outer{id}: inner{id}\""),"hasBt":false,
                                         "tags":[{"n":"et","v":"-3"}]});
                        Err(Error::new().with_msg(format!("inner{id}")).with_tag("et", -3i32).with_msg(format!("outer{id}")))
                    }
                    _ => {
                        let r = Response::text(503, "busy");
                        outcome = json!({"k":"Err","resp":rj(&r),"hasResp":true,"hasMsg":true,"msg":format!("\"m{id}\""),"hasBt":true,
                                         "tags":[{"n":"et","v":"true"}]});
                        Err(Error::server_error(format!("m{id}")).with_response(r).with_tag("et", true))
                    }
                };
                start_end = stamp();
                result
            })
        });
        let e0 = stamp();
        let ret = match &res {
            Ok(Ok(r)) => json!({"k":"Ok","code":r.code.to_string(),"bodyLen":r.body.len().map_or("none".to_string(), |n| n.to_string())}),
            _ => json!({"k":"Stopped","code":"","bodyLen":""}),
        };
        self.rec(json!({"t":t,"op":"WrapEnd","wm":id.to_string(),"outcome":outcome,"ret":ret,"start":start_end,"end":e0,"panic":res.is_err()}));
    }
}

pub fn run_threads(args: &Args, mut out: Out) {
    let runs = args.u64("runs", 40);
    let max_threads = args.usize("threads", 8);
    let max_ops = args.usize("ops", 60);
    let seed = args.seed();
    let cap = std::env::current_dir().unwrap().join("stdout_capture.txt");
    redirect_stdout(&cap);
    let mut cap_pos: u64 = 0;
    for sid in 1..=runs {
        let mut r0 = StdRng::seed_from_u64(seed.wrapping_mul(7919).wrapping_add(sid));
        let nthreads = if sid % 5 == 0 { max_threads } else { r0.gen_range(1..=max_threads) };
        let nloggers = r0.gen_range(1..=4usize);
        // a clean cell: nothing installed, no default logger
        *lock_global_logger() = GlobalLoggerState::None;
        let mut senders = vec![];
        let mut receivers = vec![];
        let small = sid % 4 == 1;
        for i in 0..nloggers {
            let (s, r) = sync_channel::<LogEvent>(if small { 1 + i % 2 } else { 200_000 });
            senders.push(s);
            receivers.push(Some(r));
        }
        let sh = Arc::new(Shared { small, senders, receivers: Mutex::new(receivers), guards: Mutex::new(vec![]), delivered: Mutex::new(vec![]), ops: Mutex::new(vec![]) });
        let barrier = Arc::new(Barrier::new(nthreads));
        let mut hs = vec![];
        for t in 1..=nthreads {
            let (sh, barrier) = (sh.clone(), barrier.clone());
            let tseed = seed.wrapping_mul(1_000_003).wrapping_add(sid * 64 + t as u64);
            let nops = r0.gen_range(5..=max_ops);
            let start_installed = r0.gen_bool(0.5);
            hs.push(std::thread::spawn(move || {
                let mut c = ThreadCtx { t, r: StdRng::seed_from_u64(tseed), sh: &sh, next: 0, nloggers };
                clear_thread_local_log_tags();
                if t == 1 && start_installed {
                    c.install();
                }
                barrier.wait();
                for _ in 0..nops {
                    match c.r.gen_range(0..100) {
                        0 => {
                            // a thread that has collected a long list of tags
                            for _ in 0..c.r.gen_range(28..=36) {
                                c.add_tag();
                            }
                        }
                        1..=19 => c.add_tag(),
                        20..=24 => c.clear(),
                        25..=64 => c.log(),
                        65..=76 => c.wrapped(),
                        77..=86 => c.install(),
                        87..=96 => c.drop_guard(),
                        _ => c.kill(),
                    }
                }
                clear_thread_local_log_tags();
            }));
        }
        let pump_stop = Arc::new(std::sync::atomic::AtomicBool::new(false));
        let pump = if small {
            let (sh, stop) = (sh.clone(), pump_stop.clone());
            Some(std::thread::spawn(move || {
                while !stop.load(std::sync::atomic::Ordering::SeqCst) {
                    {
                        // (what is taken out of a queue is filed before the queue can change hands: per-queue order is kept)
                        let rs = sh.receivers.lock().unwrap();
                        let mut got = vec![];
                        for (i, r) in rs.iter().enumerate() {
                            if let Some(r) = r {
                                drain(i + 1, r, &mut got);
                            }
                        }
                        if !got.is_empty() {
                            sh.delivered.lock().unwrap().extend(got);
                        }
                    }
                    std::thread::sleep(Duration::from_micros(150));
                }
            }))
        } else {
            None
        };
        let mut thread_panicked = false;
        for h in hs {
            if h.join().is_err() {
                thread_panicked = true;
            }
        }
        pump_stop.store(true, std::sync::atomic::Ordering::SeqCst);
        if let Some(p) = pump {
            p.join().unwrap();
        }
        // end of the run: release the cell (a default logger's sender is dropped, its thread drains and ends)
        // (a leftover guard is dropped as one more recorded call: a panic in it is data, not a harness failure)
        let leftover: Vec<ClearGlobalLoggerOnDrop> = std::mem::take(&mut *sh.guards.lock().unwrap());
        for g in leftover {
            let s0 = stamp();
            let res = catch(move || drop(g));
            let e0 = stamp();
            sh.ops.lock().unwrap().push(json!({"t":1,"op":"DropGuard","start":s0,"end":e0,"panic":res.is_err()}));
        }
        *lock_global_logger() = GlobalLoggerState::None;
        let mut delivered = std::mem::take(&mut *sh.delivered.lock().unwrap());
        for (i, r) in sh.receivers.lock().unwrap().iter().enumerate() {
            if let Some(r) = r {
                drain(i + 1, r, &mut delivered);
            }
        }
        let mut ops = std::mem::take(&mut *sh.ops.lock().unwrap());
        ops.sort_by_key(|o| o["start"].as_u64().unwrap());
        // what reached the stdout default: wait (eventually-observation) for every successful call whose event
        // no harness logger received
        let have = |d: &[Value], n: &str, v: &str| d.iter().any(|e| e["tags"].as_array().unwrap().iter().any(|t| t["n"] == n && t["v"] == v));
        let mut missing: Vec<(String, String)> = vec![];
        for o in &ops {
            if o["op"] == "Log" && o["ok"] == true && !have(&delivered, "m", o["m"].as_str().unwrap()) {
                missing.push(("m".into(), o["m"].as_str().unwrap().to_string()));
            }
            if o["op"] == "WrapEnd" && o["ret"]["k"] == "Ok" && !have(&delivered, "wm", o["wm"].as_str().unwrap()) {
                missing.push(("wm".into(), o["wm"].as_str().unwrap().to_string()));
            }
        }
        let deadline = Instant::now() + Duration::from_secs(5);
        let mut stdout_events: Vec<Value>;
        let mut text = String::new();
        loop {
            let mut f = std::fs::File::open(&cap).unwrap();
            f.seek(SeekFrom::Start(cap_pos)).unwrap();
            text.clear();
            f.read_to_string(&mut text).ok();
            let complete = text.rfind('\n').map_or(0, |p| p + 1);
            stdout_events = text[..complete]
                .lines()
                .map(|l| {
                    let mut v = project_stdout(l);
                    v.as_object_mut().unwrap().insert("sink".into(), json!(0));
                    v
                })
                .collect();
            if missing.iter().all(|(n, v)| have(&stdout_events, n, v)) || Instant::now() > deadline {
                cap_pos += complete as u64;
                break;
            }
            std::thread::sleep(Duration::from_millis(2));
        }
        delivered.extend(stdout_events);
        // the 2n stamps in increasing order (a sort of the harness's own numbers)
        let mut stamps: Vec<(u64, &str, usize)> = vec![];
        for (k, o) in ops.iter().enumerate() {
            stamps.push((o["start"].as_u64().unwrap(), "S", k + 1));
            stamps.push((o["end"].as_u64().unwrap(), "E", k + 1));
        }
        stamps.sort();
        let stamps: Vec<Value> = stamps.into_iter().map(|(s, k, i)| json!([s, k, i])).collect();
        out.ev(sid, "Reset", json!({}));
        out.ev(sid, "Run", json!({"threads":nthreads,"loggers":nloggers,"ops":ops,"stamps":stamps,"delivered":delivered,"threadPanicked":thread_panicked}));
    }
    out.finish();
}
