//! C06 / C07 / C08 / C20.
//!  `resp-gen`     generated responses through `write_http_response` into scripted writers
//!  `chunk-lens`   every piece length 1..=65528 through `copy_chunked_async`
//!  `chunk-gen`    random streams under adversarial piece sequences, source errors and
//!                 writer failures at chunk boundaries
//!  `resp-faults`  write error at every byte offset; body files short / missing / removed;
//!                 the same at connection level over loopback
//!  `status-all`   status-named constructors, error mapping, close marking of 100..999
use crate::common::*;
use rand::prelude::*;
use serde_json::{json, Value};
use servlin::internal::*;
#[allow(unused_imports)]
use servlin::*;
use std::io::{Read, Write};
use std::pin::Pin;
use std::task::{Context, Poll};

const TCHAR: &[u8] = b"!#$%&'*+-.^_`|~0123456789abcdefghijklmnopqrstuvwxyzABCDEFGHIJKLMNOPQRSTUVWXYZ";

fn res_kind(r: &Option<Result<(), HttpError>>) -> String {
    match r {
        None => "Hang".into(),
        Some(Ok(())) => "Ok".into(),
        Some(Err(e)) => variant_name(e),
    }
}
/// Lexical walk of a plain body.
fn walk_plain(b: &[u8]) -> Value {
    json!({"kind":"plain","len":b.len(),"digest":digest(b),"chunks":[],"term":false,"trailing":0})
}
/// Lexical walk of a chunked body by the sizes the stream itself declares.
pub fn walk_chunked(mut b: &[u8]) -> Value {
    let mut chunks = vec![];
    let mut decoded = Digester::new();
    let mut term = false;
    loop {
        let Some(p) = b.windows(2).position(|w| w == b"\r\n") else { break };
        let Ok(n) = usize::from_str_radix(std::str::from_utf8(&b[..p]).unwrap_or("x"), 16) else { break };
        if p > 8 {
            break;
        }
        if n == 0 {
            chunks.push(json!({"size": ints(&b[..p]), "len": 0, "crlf": true}));
            term = b.len() >= p + 4 && &b[p + 2..p + 4] == b"\r\n";
            b = if term { &b[p + 4..] } else { &b[p + 2..] };
            break;
        }
        if b.len() < p + 2 + n + 2 {
            break;
        }
        let crlf = &b[p + 2 + n..p + 2 + n + 2] == b"\r\n";
        chunks.push(json!({"size": ints(&b[..p]), "len": n, "crlf": crlf}));
        decoded.update(&b[p + 2..p + 2 + n]);
        b = &b[p + 2 + n + 2..];
    }
    json!({"kind":"chunked","chunks":chunks,"term":term,"trailing":b.len(),"len":decoded.1,"digest":decoded.value()})
}
fn split_head(bytes: &[u8]) -> (&[u8], &[u8], bool) {
    match bytes.windows(4).position(|w| w == b"\r\n\r\n") {
        Some(p) => (&bytes[..p], &bytes[p + 4..], true),
        None => (bytes, &b""[..], false),
    }
}

fn ctypes() -> Vec<ContentType> {
    vec![
        ContentType::None,
        ContentType::None,
        ContentType::PlainText,
        ContentType::Json,
        ContentType::Html,
        ContentType::EventStream,
        ContentType::OctetStream,
        ContentType::Css,
        ContentType::Csv,
        ContentType::Gif,
        ContentType::JavaScript,
        ContentType::Jpeg,
        ContentType::Markdown,
        ContentType::MultipartForm,
        ContentType::Pdf,
        ContentType::Png,
        ContentType::Svg,
        ContentType::FormUrlEncoded,
        ContentType::Str("application/x-custom"),
        ContentType::String("text/x; q=1".to_string()),
        // custom texts whose media type is one the library has a variant for: the handler's text goes out as it is
        ContentType::Str("text/html"),
        ContentType::Str("Text/Plain"),
        ContentType::String("text/plain; charset=ISO-8859-1".to_string()),
        ContentType::String("multipart/form-data; boundary=xYz123".to_string()),
        ContentType::String("application/json".to_string()),
        ContentType::Str("image/svg+xml"),
    ]
}

/// One file body in four is longer on disk than the length the response declares (a file that grew after the response
/// was built, or a response that offers a prefix of a file): the message still carries exactly the declared bytes.
fn grow(p: &std::path::Path, r: &mut StdRng) {
    if r.gen_bool(0.25) {
        use std::io::Write as _;
        let extra = *[1usize, 17, 4096, 70_000].choose(r).unwrap();
        let mut f = std::fs::OpenOptions::new().append(true).open(p).unwrap();
        f.write_all(&vec![b'+'; extra]).unwrap();
    }
}

pub fn run_gen(args: &Args, mut out: Out) {
    let n = args.usize("n", 500);
    let big = args.usize("big", 0);
    let mut r = args.rng();
    let dir = temp_dir::TempDir::new().unwrap();
    let ctypes = ctypes();
    let mut sizes = vec![0usize, 0, 1, 2, 17, 1000, 65535, 65536, 65537, 200_000];
    if big > 0 {
        sizes.extend([1_048_577, 3 * 1_048_576]);
    }
    for sid in 1..=(n as u64) {
        let code: u16 =
            if r.gen_bool(0.3) { *[100u16, 101, 200, 204, 301, 304, 404, 413, 500, 503, 599, 600, 999].choose(&mut r).unwrap() } else { r.gen_range(100..=999) };
        let close = r.gen_bool(0.3);
        let ctype = ctypes.choose(&mut r).unwrap().clone();
        let mut resp = Response::new(code).with_type(ctype.clone());
        let mut user = vec![];
        let nfields = if r.gen_bool(0.1) { 20 } else { r.gen_range(0..4) };
        for _ in 0..nfields {
            let name: Vec<u8> = if r.gen_bool(0.25) {
                (*[&b"Content-Type"[..], b"content-length", b"TRANSFER-ENCODING", b"Connection", b"content-type", b"Content-Length", b"transfer-encoding"].choose(&mut r).unwrap()).to_vec()
            } else {
                (0..r.gen_range(1..10)).map(|_| *TCHAR.choose(&mut r).unwrap()).collect()
            };
            let mut value: Vec<u8> = (0..r.gen_range(0..16)).map(|_| if r.gen_bool(0.1) { b'\t' } else { r.gen_range(32..=126u8) }).collect();
            while value.first().map_or(false, |b| *b == b' ' || *b == b'\t') {
                value.remove(0);
            }
            while value.last().map_or(false, |b| *b == b' ' || *b == b'\t') {
                value.pop();
            }
            resp = resp.with_header(std::str::from_utf8(&name).unwrap(), String::from_utf8(value.clone()).unwrap().try_into().unwrap());
            user.push(json!([ints(&name), ints(&value)]));
        }
        let len = *sizes.choose(&mut r).unwrap();
        let bytes: Vec<u8> = (0..len).map(|i| ((i * 7 + sid as usize) % 256) as u8).collect();
        let (bkind, known, blen, bdigest) = match r.gen_range(0..7) {
            0 => {
                resp = resp.with_body(bytes.clone());
                ("Vec", true, len, digest(&bytes))
            }
            // text bodies through the String and &'static str conversions: the length announced is the length in BYTES
            5 | 6 => {
                let mut text = String::new();
                while text.len() < len.min(70_000) {
                    text.push(*['a', 'é', '€', '\u{1F600}', '\n', '"'].choose(&mut r).unwrap());
                }
                let tb = text.as_bytes().to_vec();
                if r.gen_bool(0.5) {
                    resp = resp.with_body(text);
                } else {
                    let st: &'static str = Box::leak(text.into_boxed_str());
                    resp = resp.with_body(st);
                }
                ("Text", true, tb.len(), digest(&tb))
            }
            1 => {
                let s: &'static [u8] = Box::leak(bytes.clone().into_boxed_slice());
                resp = resp.with_body(s);
                ("StaticBytes", true, len, digest(&bytes))
            }
            2 => {
                let p = dir.path().join(format!("f{sid}"));
                std::fs::write(&p, &bytes).unwrap();
                grow(&p, &mut r);
                resp = resp.with_body(ResponseBody::File(p, len as u64));
                ("File", true, len, digest(&bytes))
            }
            3 => {
                let t = temp_file::TempFile::in_dir(dir.path()).unwrap();
                std::fs::write(t.path(), &bytes).unwrap();
                grow(t.path(), &mut r);
                resp = resp.with_body(ResponseBody::TempFile(t, len as u64));
                ("TempFile", true, len, digest(&bytes))
            }
            _ => {
                // event stream with pre-queued events, senders dropped: unknown length
                let (mut sender, es) = Response::event_stream();
                let mut expect: Vec<u8> = vec![];
                for k in 0..r.gen_range(0..4) {
                    // half of the events are sized so that their ENCODING (one chunk each) has a length at a boundary of
                    // the hexadecimal size line: 15/16/17, 255/256/257, 4095/4096/4097, ... bytes
                    let ev = if r.gen_bool(0.5) {
                        let target = *[15usize, 16, 17, 255, 256, 257, 4095, 4096, 4097, 65527, 65528].choose(&mut r).unwrap();
                        // "data: " + payload + "\n" = target bytes
                        Event::Message("e".repeat(target - 7))
                    } else {
                        Event::Message(format!("m{k}\nline2-{sid}"))
                    };
                    ev.push_to(&mut expect);
                    sender.send(ev);
                }
                drop(sender);
                resp.body = es.body;
                ("EventStream", false, expect.len(), digest(&expect))
            }
        };
        if r.gen_bool(0.05) {
            resp = if r.gen_bool(0.5) { Response::drop_connection() } else { Response::get_body_and_reprocess(5) };
        }
        let normal = resp.is_normal();
        let desc = json!({"kind": if normal { "Normal" } else { "Other" }, "code": resp.code,
            "ctype": ints(if normal { ctype.as_str().as_bytes() } else { b"" }), "user": if normal { Value::Array(user) } else { json!([]) },
            "body": {"kind": bkind, "known": if normal { known } else { true }, "len": if normal { blen } else { 0 },
                     "digest": if normal { bdigest } else { digest(b"") }}});
        if !out.wants(sid) {
            continue;
        }
        out.ev(sid, "Reset", json!({}));
        let mut canon: Option<(usize, u64)> = None;
        let mut canon_res = String::new();
        // an event stream can be serialised only once
        let schedules: Vec<WMode> = if known {
            vec![WMode::All, WMode::AtMost(1), WMode::AtMostWithPending(7), WMode::Cycle(vec![4096, 1, 100, 65536, 3])]
        } else {
            vec![[WMode::All, WMode::AtMost(1), WMode::AtMostWithPending(5)].choose(&mut r).unwrap().clone()]
        };
        for (si, mode) in schedules.iter().enumerate() {
            if si > 0 && len > 70_000 && !matches!(mode, WMode::Cycle(_)) {
                continue;
            }
            let mut w = ScriptedWriter::new(mode.clone());
            let res = catch(|| poll_budget(write_http_response(&mut w, &resp, close), 20_000_000));
            let res_s = match res {
                Err(()) => "Panic".to_string(),
                Ok(r) => res_kind(&r),
            };
            let bytes_out = &w.got;
            if si == 0 {
                canon = Some((bytes_out.len(), digest(bytes_out)));
                canon_res = res_s.to_string();
                let (head, rest, found) = split_head(bytes_out);
                let walk = if known || !normal { walk_plain(rest) } else { walk_chunked(rest) };
                out.ev(
                    sid,
                    "Ser",
                    json!({"r": desc, "close": close, "res": res_s, "total": bytes_out.len(), "head": ints(head), "headEnd": found,
                           "walk": walk, "mode": format!("{mode:?}")}),
                );
            } else {
                out.ev(
                    sid,
                    "Again",
                    json!({"mode": format!("{mode:?}"), "res": res_s, "total": bytes_out.len(), "digest": digest(bytes_out),
                           "canonTotal": canon.unwrap().0, "canonDigest": canon.unwrap().1, "canonRes": canon_res}),
                );
            }
        }
    }
    out.finish();
}

// ------------------------------------------------------------------------------ chunked
/// A source that delivers the planned pieces; it may offer more than the encoder asks
/// for (the encoder's buffer then cuts the piece), and may end with an error.
struct Pieces {
    plan: Vec<usize>,
    idx: usize,
    given: u64,
    left_in_piece: usize,
    err_at_end: bool,
    dg: Digester,
    delivered: Vec<usize>,
}
impl Pieces {
    fn new(plan: Vec<usize>, err_at_end: bool) -> Self {
        Pieces { plan, idx: 0, given: 0, left_in_piece: 0, err_at_end, dg: Digester::new(), delivered: vec![] }
    }
}
impl futures_io::AsyncRead for Pieces {
    fn poll_read(mut self: Pin<&mut Self>, _cx: &mut Context<'_>, buf: &mut [u8]) -> Poll<std::io::Result<usize>> {
        if self.left_in_piece == 0 {
            if self.idx >= self.plan.len() {
                if self.err_at_end {
                    // Whatever the kind of the error, the body is incomplete: C07 says "a source error ends the output
                    // without the terminating chunk", with no exception for kinds such as Interrupted.  The error is
                    // reported once; a source asked again afterwards reports end of stream, so an encoder that swallows
                    // the error and goes on presents the truncated stream as a complete one.
                    use std::io::ErrorKind as K;
                    let kinds = [K::Other, K::UnexpectedEof, K::BrokenPipe, K::ConnectionReset, K::ConnectionAborted, K::TimedOut,
                                 K::InvalidData, K::NotFound, K::PermissionDenied, K::WriteZero, K::InvalidInput, K::Interrupted,
                                 K::WouldBlock];
                    let k = kinds[(self.given as usize + self.plan.len()) % kinds.len()];
                    self.err_at_end = false;
                    return Poll::Ready(Err(std::io::Error::new(k, "source error")));
                }
                return Poll::Ready(Ok(0));
            }
            self.left_in_piece = self.plan[self.idx];
            self.idx += 1;
        }
        let k = self.left_in_piece.min(buf.len());
        for (i, b) in buf[..k].iter_mut().enumerate() {
            *b = ((self.given + i as u64) % 251) as u8;
        }
        let copy = buf[..k].to_vec();
        self.dg.update(&copy);
        self.given += k as u64;
        self.left_in_piece -= k;
        self.delivered.push(k);
        Poll::Ready(Ok(k))
    }
}

pub fn run_chunk_lens(args: &Args, mut out: Out) {
    let hi = args.usize("hi", 65528);
    let threads = 8usize;
    let per = (hi + threads - 1) / threads;
    let results = parallel(threads, move |t| {
        let mut v = vec![];
        let lo = t * per + 1;
        for n in lo..=(lo + per - 1).min(hi) {
            let mut src = Pieces::new(vec![n], false);
            let mut w = ScriptedWriter::new(WMode::All);
            let res = catch(|| poll_budget(copy_chunked_async(&mut src, &mut w), 100));
            let ok = matches!(res, Ok(Some(CopyResult::Ok(_))));
            let walk = walk_chunked(&w.got);
            v.push((n, json!({"n": n, "ok": ok, "pieces": src.delivered, "srcLen": src.dg.1, "srcDigest": src.dg.value(), "srcPrefixDigest": src.dg.value(), "walk": walk, "fault": "none", "transient": false, "res": if ok { "Ok" } else { "Fail" }})));
        }
        v
    });
    for v in results {
        for (n, ev) in v {
            let sid = n as u64;
            if out.wants(sid) {
                out.ev(sid, "Reset", json!({}));
                out.ev(sid, "Chunks", ev);
            }
        }
    }
    out.finish();
}

pub fn run_chunk_gen(args: &Args, mut out: Out) {
    let n = args.usize("n", 300);
    let mut r = args.rng();
    let adversarial = [1usize, 2, 15, 16, 17, 255, 256, 257, 4095, 4096, 4097, 65527, 65528, 65529, 65535, 65536, 100_000];
    for sid in 1..=(n as u64) {
        let npieces = r.gen_range(0..12);
        let plan: Vec<usize> = (0..npieces)
            .map(|_| if r.gen_bool(0.5) { *adversarial.choose(&mut r).unwrap() } else { r.gen_range(1..2000) })
            .collect();
        let total: usize = plan.iter().sum();
        let mut fault = if total > 1_200_000 { 0 } else { r.gen_range(0..4) };
        if fault >= 2 && total == 0 {
            fault = 0;
        }
        let mut src = Pieces::new(plan.clone(), fault == 1);
        let mode = [WMode::All, WMode::AtMost(4096), WMode::Cycle(vec![1, 70000, 13])].choose(&mut r).unwrap().clone();
        let mut w = ScriptedWriter::new(mode);
        // fault 2: the writer fails exactly at a chunk boundary; fault 3: in the middle of a chunk
        if fault >= 2 && total > 0 {
            // compute boundaries with a dry run
            let mut dry_src = Pieces::new(plan.clone(), false);
            let mut dry_w = ScriptedWriter::new(WMode::All);
            let _ = poll_budget(copy_chunked_async(&mut dry_src, &mut dry_w), 10_000_000);
            let mut bounds = vec![0usize];
            let mut pos = 0;
            for k in &dry_src.delivered {
                pos += format!("{k:x}").len() + 2 + k + 2;
                bounds.push(pos);
            }
            let b = *bounds.choose(&mut r).unwrap();
            w.fail_after = Some(if fault == 2 { b } else { (b + r.gen_range(1..7)).min(dry_w.got.len().saturating_sub(1)) });
            // the error's kind varies, and half of the writers would accept bytes again after reporting it once: an encoder
            // that retries must not put any byte on the wire twice
            use std::io::ErrorKind as K;
            w.fail_kind = *[K::BrokenPipe, K::Interrupted, K::ConnectionReset, K::WouldBlock, K::TimedOut, K::Interrupted].choose(&mut r).unwrap();
            w.fail_once = r.gen_bool(0.5) || matches!(w.fail_kind, K::Interrupted | K::WouldBlock);
        }
        let res = catch(|| poll_budget(copy_chunked_async(&mut src, &mut w), 10_000_000));
        let res_s = match res {
            Err(()) => "Panic",
            Ok(None) => "Hang",
            Ok(Some(CopyResult::Ok(_))) => "Ok",
            Ok(Some(CopyResult::ReaderErr(_))) => "ReaderErr",
            Ok(Some(CopyResult::WriterErr(_))) => "WriterErr",
        };
        if !out.wants(sid) {
            continue;
        }
        out.ev(sid, "Reset", json!({}));
        let fault_name = ["none", "source", "writer-boundary", "writer-mid"][fault];
        let walk = walk_chunked(&w.got);
        // the digest of the first `walk.len` source bytes (the source is the byte pattern i % 251): what a prefix
        // of the right data must hash to
        let decoded_len = walk["len"].as_u64().unwrap_or(0);
        let prefix: Vec<u8> = (0..decoded_len.min(src.dg.1)).map(|i| (i % 251) as u8).collect();
        out.ev(
            sid,
            "Chunks",
            json!({"n": total, "ok": res_s == "Ok", "pieces": src.delivered, "srcLen": src.dg.1, "srcDigest": src.dg.value(),
                   "srcPrefixDigest": digest(&prefix), "walk": walk, "fault": fault_name, "res": res_s, "transient": w.fail_once}),
        );
    }
    out.finish();
}

// ------------------------------------------------------------------------------ faults
/// The scripted write error at offset k: its kind varies with the offset, and at every other offset the writer would
/// accept bytes again after reporting it once.  (Interrupted and WouldBlock are transient by nature: a writer that reported
/// them for ever would make a retrying implementation spin, which no budget of polls can interrupt.)
fn write_fault(k: usize) -> (std::io::ErrorKind, bool) {
    use std::io::ErrorKind as K;
    let kind = [K::BrokenPipe, K::Interrupted, K::ConnectionReset, K::WouldBlock, K::TimedOut, K::Interrupted, K::WriteZero][k % 7];
    (kind, k % 2 == 1 || matches!(kind, K::Interrupted | K::WouldBlock))
}
fn ser(resp: &Response, close: bool, fail_after: Option<usize>, mode: WMode, on_first: Option<Box<dyn FnOnce() + Send>>) -> (Vec<u8>, String) {
    let mut w = ScriptedWriter::new(mode);
    w.fail_after = fail_after;
    if let Some(k) = fail_after {
        let (kind, once) = write_fault(k);
        w.fail_kind = kind;
        w.fail_once = once;
    }
    w.on_first_write = on_first;
    let r = catch(|| poll_budget(write_http_response(&mut w, resp, close), 5_000_000));
    let k = match r {
        Err(()) => "Panic".to_string(),
        Ok(r) => res_kind(&r),
    };
    (w.got, k)
}

pub fn run_faults(args: &Args, mut out: Out) {
    let body_len = args.usize("body", 300);
    let dir = temp_dir::TempDir::new().unwrap();
    let body: Vec<u8> = (0..body_len).map(|i| (i % 251) as u8).collect();
    let dirp = dir.path().to_path_buf();
    let b2 = body.clone();
    let mk = move |variant: usize| -> Response {
        match variant {
            0 => Response::text(200, "hello"),
            1 => Response::new(204),
            2 => Response::text(500, b2.clone()),
            3 => Response::new(200).with_body(b2.clone()).with_header("x", "y".try_into().unwrap()),
            4 => {
                let p = dirp.join("full");
                std::fs::write(&p, &b2).unwrap();
                Response::new(200).with_body(ResponseBody::File(p, b2.len() as u64))
            }
            5 => {
                let t = temp_file::TempFile::in_dir(&dirp).unwrap();
                std::fs::write(t.path(), &b2).unwrap();
                Response::new(404).with_type(ContentType::Json).with_body(ResponseBody::TempFile(t, b2.len() as u64))
            }
            6 => {
                let s: &'static [u8] = Box::leak(b2.clone().into_boxed_slice());
                Response::new(200).with_body(s)
            }
            _ => {
                let (mut s, r) = Response::event_stream();
                s.send(Event::Message("a".into()));
                s.send(Event::Message("bb\ncc".into()));
                s.send(Event::custom("t", "x".to_string()).unwrap());
                drop(s);
                r
            }
        }
    };
    let mut sid = 0u64;
    // ---- serialiser level: a write error at every byte offset, under two write granularities ----
    for variant in 0..8 {
        let close = variant == 2;
        let (canon, res0) = ser(&mk(variant), close, None, WMode::All, None);
        for k in 0..=canon.len() + 1 {
            for mode in [WMode::All, WMode::AtMost(3)] {
                sid += 1;
                if !out.wants(sid) {
                    continue;
                }
                let (got, res) = ser(&mk(variant), close, Some(k), mode.clone(), None);
                out.ev(sid, "Reset", json!({}));
                out.ev(
                    sid,
                    "WriteFault",
                    json!({"variant":variant,"k":k,"canonLen":canon.len(),"canonRes":res0,"gotLen":got.len(),"gotDigest":digest(&got),
                           "prefixDigest":digest(&canon[..k.min(canon.len())]),"res":res,"mode":format!("{mode:?}"),
                           "transient":write_fault(k).1,"canonDigest":digest(&canon)}),
                );
            }
        }
    }
    // ---- body-source faults: file shorter than declared, missing, removed between head and body ----
    let head_len = |b: &[u8]| b.windows(4).position(|w| w == b"\r\n\r\n").map_or(b.len(), |p| p + 4);
    let n = body.len();
    for (what, actual) in [
        ("short", 0usize),
        ("short", 1),
        ("short", n / 2),
        ("short", n - 1),
        ("missing", 0),
        ("removed_after_head", n),
    ] {
        sid += 1;
        let p = dir.path().join(format!("f{sid}"));
        if what != "missing" {
            std::fs::write(&p, &body[..actual]).unwrap();
        }
        let resp = Response::new(200).with_body(ResponseBody::File(p.clone(), n as u64));
        let p2 = p.clone();
        let on_first: Option<Box<dyn FnOnce() + Send>> = if what == "removed_after_head" {
            Some(Box::new(move || {
                let _ = std::fs::remove_file(&p2);
            }))
        } else {
            None
        };
        let (got, res) = ser(&resp, false, None, WMode::All, on_first);
        let hl = head_len(&got);
        if !out.wants(sid) {
            continue;
        }
        out.ev(sid, "Reset", json!({}));
        out.ev(
            sid,
            "BodyFault",
            json!({"what":what,"declared":n,"actual":actual,
                   "headOk": got[..hl].ends_with(b"\r\n\r\n") && String::from_utf8_lossy(&got[..hl]).contains(&format!("content-length: {n}\r\n")),
                   "bodyLen":got.len() - hl,"bodyDigest":digest(&got[hl..]),"wantDigest":digest(&body[..actual.min(n)]),"res":res}),
        );
    }
    // ---- connection level (loopback): the failed write, then what handle_http_conn does next ----
    let listener = std::net::TcpListener::bind("127.0.0.1:0").unwrap();
    let addr = listener.local_addr().unwrap();
    // (the first answer is a 200 or, for the fault cases, also a 503: a 5xx closes the write side when it SUCCEEDS, and a
    // failed one must do no less)
    for (what, actual, code) in [("short", 0usize, 200u16), ("short", n / 2, 200), ("short", n - 1, 200), ("missing", 0, 200), ("short", n / 2, 503),
                                 ("short", 0, 500), ("missing", 0, 503), ("dup_header", n, 200), ("not_normal", n, 200), ("ok", n, 200), ("long", n + 1, 200), ("long", n + 70_000, 200)] {
        sid += 1;
        let p = dir.path().join(format!("c{sid}"));
        if what == "long" {
            // the file holds more than the response declares: exactly the declared bytes go out, the exchange is an ordinary one
            let mut longer = body.clone();
            longer.extend(std::iter::repeat(b'+').take(actual - n));
            std::fs::write(&p, &longer).unwrap();
        } else if what != "missing" {
            std::fs::write(&p, &body[..actual]).unwrap();
        }
        let resp = match what {
            "dup_header" => Response::text(200, "x").with_header("content-type", "a".try_into().unwrap()),
            "not_normal" => Response::drop_connection(),
            _ => Response::new(code).with_body(ResponseBody::File(p, n as u64)),
        };
        let mut c = std::net::TcpStream::connect(addr).unwrap();
        c.write_all(b"GET / HTTP/1.1\r\n\r\n").unwrap();
        c.shutdown(std::net::Shutdown::Write).unwrap();
        let (s, peer) = listener.accept().unwrap();
        let mut conn = HttpConn::new(peer, async_net::TcpStream::try_from(s).unwrap());
        let ws = |c: &HttpConn| crate::drivers::conn_enum::ws_str(&c.write_state);
        let (r1, ws1, r2, ws2) = futures_lite::future::block_on(async {
            conn.read_request().await.unwrap();
            let r1 = conn.write_response(&resp).await;
            let w1 = ws(&conn);
            let r2 = conn.write_response(&Response::text(500, "Internal server error")).await;
            (r1, w1, r2, ws(&conn))
        });
        drop(conn);
        let mut got = Vec::new();
        let _ = c.read_to_end(&mut got);
        let text = String::from_utf8_lossy(&got).to_string();
        let statuses = text.matches("HTTP/1.1 ").count();
        let body_is_prefix = {
            let hl = head_len(&got).min(got.len());
            let b = &got[hl..];
            what == "dup_header" || what == "not_normal" || (b.len() <= body.len() && b == &body[..b.len()])
        };
        if !out.wants(sid) {
            continue;
        }
        out.ev(sid, "Reset", json!({}));
        out.ev(
            sid,
            "ConnFault",
            json!({"what":what,"code":code,"r1":res_kind(&Some(r1)),"ws1":ws1,"r2":res_kind(&Some(r2)),"ws2":ws2,"statusLines":statuses,
                   "firstCode": text.get(9..12).and_then(|s| s.parse::<u64>().ok()).unwrap_or(0),
                   "bytes":got.len(),"bodyBytes": got.len().saturating_sub(head_len(&got)),
                   "bodyIsPrefix": body_is_prefix}),
        );
    }
    // ---- connection level: the SOCKET fails while the response is being written (the peer reads the first bytes of a
    // response far larger than the socket buffers and goes away with the rest unread) ----
    for what in ["socket_vec", "socket_file"] {
        sid += 1;
        let big = 48usize << 20;
        let resp = if what == "socket_vec" {
            Response::new(200).with_body(vec![b'v'; big])
        } else {
            let p = dir.path().join(format!("big{sid}"));
            let f = std::fs::File::create(&p).unwrap();
            f.set_len(big as u64).unwrap(); // sparse
            Response::new(200).with_body(ResponseBody::File(p, big as u64))
        };
        let mut c = std::net::TcpStream::connect(addr).unwrap();
        c.write_all(b"GET / HTTP/1.1\r\n\r\n").unwrap();
        c.shutdown(std::net::Shutdown::Write).unwrap();
        let (s, peer) = listener.accept().unwrap();
        let client = std::thread::spawn(move || {
            let mut first = [0u8; 1000];
            let _ = c.read_exact(&mut first);
            drop(c); // unread data pending: the kernel answers further segments with a reset
            first[..12].to_vec()
        });
        let mut conn = HttpConn::new(peer, async_net::TcpStream::try_from(s).unwrap());
        let ws = |c: &HttpConn| crate::drivers::conn_enum::ws_str(&c.write_state);
        let (r1, ws1, r2, ws2, r3) = futures_lite::future::block_on(async {
            conn.read_request().await.unwrap();
            let r1 = conn.write_response(&resp).await;
            let w1 = ws(&conn);
            let r2 = conn.write_response(&Response::text(500, "Internal server error")).await;
            let w2 = ws(&conn);
            let r3 = conn.read_request().await.map(|_| ());
            (r1, w1, r2, w2, r3)
        });
        drop(conn);
        let first = client.join().unwrap();
        if !out.wants(sid) {
            continue;
        }
        out.ev(sid, "Reset", json!({}));
        out.ev(
            sid,
            "ConnFault",
            json!({"what":"socket","body":what,"r1":res_kind(&Some(r1)),"ws1":ws1,"r2":res_kind(&Some(r2)),"ws2":ws2,"r3":res_kind(&Some(r3)),
                   "statusLines":1,"firstCode": std::str::from_utf8(&first[9..12]).ok().and_then(|s| s.parse::<u64>().ok()).unwrap_or(0),
                   "bytes":1000,"bodyBytes":0,"bodyIsPrefix":true}),
        );
    }
    out.finish();
}

// ------------------------------------------------------------------------------ status
/// The status-named constructors found in servlin's source (pattern `pub fn \w+_\d{3}(`).
fn source_ctors() -> Vec<String> {
    let repo = std::env::var("VERIF_REPO").unwrap_or_else(|_| "/repo".to_string());
    let src = std::fs::read_to_string(format!("{repo}/src/response.rs")).unwrap_or_default();
    let mut v = vec![];
    for line in src.lines() {
        let l = line.trim_start();
        if let Some(rest) = l.strip_prefix("pub fn ") {
            if let Some(p) = rest.find('(') {
                let name = &rest[..p];
                let b = name.as_bytes();
                if b.len() > 4 && b[b.len() - 4] == b'_' && b[b.len() - 3..].iter().all(u8::is_ascii_digit) {
                    v.push(name.to_string());
                }
            }
        }
    }
    v
}

pub fn run_status(_args: &Args, mut out: Out) {
    let ctors: Vec<(&str, Response)> = vec![
        ("ok_200", Response::ok_200()),
        ("no_content_204", Response::no_content_204()),
        ("redirect_301", Response::redirect_301("/x")),
        ("redirect_303", Response::redirect_303("/x")),
        ("unauthorized_401", Response::unauthorized_401()),
        ("forbidden_403", Response::forbidden_403()),
        ("not_found_404", Response::not_found_404()),
        ("method_not_allowed_405", Response::method_not_allowed_405(&["GET"])),
        ("length_required_411", Response::length_required_411()),
        ("payload_too_large_413", Response::payload_too_large_413()),
        ("unprocessable_entity_422", Response::unprocessable_entity_422("b")),
        ("too_many_requests_429", Response::too_many_requests_429()),
        ("internal_server_error_500", Response::internal_server_error_500()),
        ("not_implemented_501", Response::not_implemented_501()),
        ("service_unavailable_503", Response::service_unavailable_503()),
    ];
    let mut sid = 0u64;
    let known: Vec<&str> = ctors.iter().map(|c| c.0).collect();
    let uncovered: Vec<String> = source_ctors().into_iter().filter(|n| !known.contains(&n.as_str())).collect();
    sid += 1;
    out.ev(sid, "Reset", json!({}));
    out.ev(sid, "CtorList", json!({"known": known.len(), "uncovered": uncovered}));
    for (name, r) in ctors {
        sid += 1;
        out.ev(sid, "Reset", json!({}));
        // serialise it and read the status line back
        let (got, res) = ser(&r, false, None, WMode::All, None);
        let line_code = std::str::from_utf8(got.get(9..12).unwrap_or(b"000")).ok().and_then(|s| s.parse::<u64>().ok()).unwrap_or(0);
        out.ev(sid, "Ctor", json!({"name":cps(name),"code":r.code,"normal":r.is_normal(),"wireCode":line_code,"res":res}));
    }
    let secret = "/etc/secret\r\npath: C:\\x";
    let io = |k| std::io::Error::new(k, secret);
    let errs: Vec<HttpError> = vec![
        HttpError::AlreadyGotBody,
        HttpError::BodyNotAvailable,
        HttpError::BodyNotRead,
        HttpError::BodyNotUtf8,
        HttpError::BodyTooLong,
        HttpError::CacheDirNotConfigured,
        HttpError::Disconnected,
        HttpError::DuplicateContentLengthHeader,
        HttpError::DuplicateContentTypeHeader,
        HttpError::DuplicateTransferEncodingHeader,
        HttpError::error_reading_file(io(std::io::ErrorKind::NotFound)),
        HttpError::error_reading_response_body(io(std::io::ErrorKind::UnexpectedEof)),
        HttpError::error_saving_file(io(std::io::ErrorKind::PermissionDenied)),
        HttpError::HandlerDeadlineExceeded,
        HttpError::HeadTooLong,
        HttpError::InvalidContentLength,
        HttpError::MalformedCookieHeader,
        HttpError::MalformedHeaderLine,
        HttpError::MalformedPath,
        HttpError::MalformedRequestLine,
        HttpError::MissingRequestLine,
        HttpError::ResponseAlreadySent,
        HttpError::ResponseNotSent,
        HttpError::TimerThreadNotStarted,
        HttpError::Truncated,
        HttpError::UnsupportedProtocol,
        HttpError::UnsupportedTransferEncoding,
        HttpError::UnwritableResponse,
    ];
    // the three variants that carry an I/O error: every ErrorKind x payload texts (the mapping must not depend on either)
    use std::io::ErrorKind as K;
    let kinds = [
        K::NotFound, K::PermissionDenied, K::ConnectionRefused, K::ConnectionReset, K::HostUnreachable, K::NetworkUnreachable,
        K::ConnectionAborted, K::NotConnected, K::AddrInUse, K::AddrNotAvailable, K::NetworkDown, K::BrokenPipe, K::AlreadyExists,
        K::WouldBlock, K::NotADirectory, K::IsADirectory, K::DirectoryNotEmpty, K::ReadOnlyFilesystem, K::StaleNetworkFileHandle,
        K::InvalidInput, K::InvalidData, K::TimedOut, K::WriteZero, K::StorageFull, K::NotSeekable, K::QuotaExceeded, K::FileTooLarge,
        K::ResourceBusy, K::ExecutableFileBusy, K::Deadlock, K::CrossesDevices, K::TooManyLinks, K::ArgumentListTooLong,
        K::Interrupted, K::Unsupported, K::UnexpectedEof, K::OutOfMemory, K::Other,
    ];
    let mut errs = errs;
    for k in kinds {
        for payload in [secret, "", "x"] {
            errs.push(HttpError::error_reading_file(std::io::Error::new(k, payload)));
            errs.push(HttpError::error_reading_response_body(std::io::Error::new(k, payload)));
            errs.push(HttpError::error_saving_file(std::io::Error::new(k, payload)));
            errs.push(HttpError::ErrorReadingFile(k, payload.to_string()));
        }
    }
    for e in errs {
        sid += 1;
        let variant = variant_name(&e);
        let server = e.is_server_error();
        let r: Response = e.into();
        let body_text: String = match &r.body {
            ResponseBody::StaticStr(s) => (*s).to_string(),
            ResponseBody::Vec(v) => String::from_utf8_lossy(v).to_string(),
            _ => String::new(),
        };
        let (got, res) = if r.is_normal() { ser(&r, r.code >= 500, None, WMode::All, None) } else { (vec![], "NotNormal".to_string()) };
        let text = String::from_utf8_lossy(&got).to_string();
        out.ev(sid, "Reset", json!({}));
        out.ev(
            sid,
            "ErrMap",
            json!({"variant":variant,"serverErr":server,"normal":r.is_normal(),"code":r.code,
                   "leaks":body_text.contains("secret") || body_text.contains("path:") || text.contains("secret"),
                   "namesKind":body_text.contains(&variant),"bodyLen":body_text.len(),"res":res,
                   "wireCode": text.get(9..12).and_then(|s| s.parse::<u64>().ok()).unwrap_or(0),
                   "statusLines": text.matches("HTTP/1.1 ").count()}),
        );
    }
    let listener = std::net::TcpListener::bind("127.0.0.1:0").unwrap();
    let addr = listener.local_addr().unwrap();
    for code in 100u16..=999 {
        sid += 1;
        let mut c = std::net::TcpStream::connect(addr).unwrap();
        c.write_all(b"GET / HTTP/1.1\r\n\r\n").unwrap();
        c.shutdown(std::net::Shutdown::Write).unwrap();
        let (s, peer) = listener.accept().unwrap();
        let mut conn = HttpConn::new(peer, async_net::TcpStream::try_from(s).unwrap());
        let r = futures_lite::future::block_on(async {
            conn.read_request().await.unwrap();
            // the marker must not depend on what else the handler put into the response
            let resp = match code % 4 {
                // (a body of unknown length, sent in chunks: some 5xx and some 2xx codes)
                _ if (code % 7 == 3) && ((500..=599).contains(&code) || (200..=203).contains(&code)) => {
                    let (sender, r) = Response::event_stream();
                    drop(sender);
                    r.with_status(code)
                }
                0 => Response::new(code),
                1 => Response::new(code).with_header("Connection", "keep-alive".try_into().unwrap()),
                2 => Response::new(code).with_header("x-extra", "1".try_into().unwrap()).with_header("keep-alive", "timeout=5".try_into().unwrap()),
                _ => Response::new(code).with_header("x-extra", "1".try_into().unwrap()).with_header("connection", "Keep-Alive".try_into().unwrap()),
            };
            conn.write_response(&resp).await
        });
        let shut = conn.write_state == WriteState::Shutdown;
        drop(conn);
        let mut got = Vec::new();
        let _ = c.read_to_end(&mut got);
        let head = String::from_utf8_lossy(&got).to_string();
        out.ev(sid, "Reset", json!({}));
        out.ev(
            sid,
            "CloseMark",
            json!({"code":code,"res":res_kind(&Some(r)),"closeHeader":head.split("\r\n").any(|l| l.eq_ignore_ascii_case("connection: close")),
                   "shut":shut,"gotCode":head.get(9..12).and_then(|s| s.parse::<u32>().ok()).unwrap_or(0)}),
        );
    }
    // ---- the answers the SERVER generates for bad requests, read off the wire of a real server: the marker follows the
    // code that is written, whatever the error was ----
    {
        safina::timer::start_timer_thread();
        let executor = safina::executor::Executor::new(2, 2).unwrap();
        let cache = temp_dir::TempDir::new().unwrap();
        let permit = permit::Permit::new();
        let handler = |req: Request| match (req.url().path(), req.body.is_pending()) {
            ("/panic", _) => panic!("scripted handler panic"),
            ("/busy", _) => Response::text(503, "busy"),
            ("/teapot", _) => Response::text(418, "teapot"),
            (_, true) => Response::get_body_and_reprocess(10),
            (_, false) => Response::text(200, "ok"),
        };
        let (addr, _stopped) = executor
            .block_on(HttpServerBuilder::new().max_conns(20).small_body_len(4).receive_large_bodies(cache.path()).permit(permit.new_sub()).spawn(handler))
            .unwrap();
        let long = format!("GET / HTTP/1.1\r\nx: {}\r\n\r\n", "a".repeat(9000));
        let wires: Vec<(&str, Vec<u8>)> = vec![
            ("UnsupportedProtocol", b"GET / HTTP/1.0\r\n\r\n".to_vec()),
            ("UnsupportedProtocol", b"GET / HTTP/2.0\r\n\r\n".to_vec()),
            ("MalformedRequestLine", b"GET /\r\n\r\n".to_vec()),
            ("MalformedPath", b"GET x HTTP/1.1\r\n\r\n".to_vec()),
            ("MalformedHeaderLine", b"GET / HTTP/1.1\r\nbad line\r\n\r\n".to_vec()),
            ("HeadTooLong", long.into_bytes()),
            ("InvalidContentLength", b"PUT / HTTP/1.1\r\ncontent-length: x\r\n\r\n".to_vec()),
            ("UnsupportedTransferEncoding", b"PUT / HTTP/1.1\r\ntransfer-encoding: zip\r\n\r\n".to_vec()),
            ("MalformedCookieHeader", b"GET / HTTP/1.1\r\ncookie: novalue\r\n\r\n".to_vec()),
            ("BodyTooLong", b"PUT / HTTP/1.1\r\ncontent-length: 50\r\n\r\n".to_vec()),
            ("Truncated", b"PUT / HTTP/1.1\r\ncontent-length: 3\r\n\r\na".to_vec()),
            ("none", b"GET / HTTP/1.1\r\n\r\n".to_vec()),
            ("handler-panic", b"GET /panic HTTP/1.1\r\n\r\n".to_vec()),
            ("handler-503", b"GET /busy HTTP/1.1\r\n\r\n".to_vec()),
            ("handler-418", b"GET /teapot HTTP/1.1\r\n\r\n".to_vec()),
        ];
        for (what, wire) in wires {
            sid += 1;
            let mut c = std::net::TcpStream::connect(addr).unwrap();
            c.set_read_timeout(Some(std::time::Duration::from_secs(5))).unwrap();
            let _ = c.write_all(&wire);
            let _ = c.shutdown(std::net::Shutdown::Write);
            let mut got = Vec::new();
            let _ = c.read_to_end(&mut got);
            let head = String::from_utf8_lossy(&got).to_string();
            // the last status line is the final answer (a 100 Continue may precede it)
            let last = head.rfind("HTTP/1.1 ").unwrap_or(0);
            let tail = &head[last..];
            let code = tail.get(9..12).and_then(|s| s.parse::<u32>().ok()).unwrap_or(0);
            let head_end = tail.find("\r\n\r\n").unwrap_or(tail.len());
            out.ev(sid, "Reset", json!({}));
            out.ev(sid, "WireCloseMark", json!({"what": what, "code": code,
                   "closeHeader": tail[..head_end].split("\r\n").any(|l| l.eq_ignore_ascii_case("connection: close"))}));
        }
        drop(permit);
    }
    out.finish();
}

// ------------------------------------------------------------------------------ builder
/// `builder-gen`: random constructor + modifier sequences on `Response`; the resulting struct is logged field by field
/// and judged by `Builder!BuildWhy`.  Also the text and the parse round trip of every named `ContentType`.
pub fn run_builder(args: &Args, mut out: Out) {
    let n = args.u64("n", 2000);
    let mut r = args.rng();
    let named: Vec<(&str, ContentType)> = vec![
        ("Css", ContentType::Css),
        ("Csv", ContentType::Csv),
        ("EventStream", ContentType::EventStream),
        ("FormUrlEncoded", ContentType::FormUrlEncoded),
        ("Gif", ContentType::Gif),
        ("Html", ContentType::Html),
        ("JavaScript", ContentType::JavaScript),
        ("Jpeg", ContentType::Jpeg),
        ("Json", ContentType::Json),
        ("Markdown", ContentType::Markdown),
        ("MultipartForm", ContentType::MultipartForm),
        ("None", ContentType::None),
        ("OctetStream", ContentType::OctetStream),
        ("Pdf", ContentType::Pdf),
        ("PlainText", ContentType::PlainText),
        ("Png", ContentType::Png),
        ("Svg", ContentType::Svg),
    ];
    let variant_of = |t: &ContentType| -> String {
        let d = format!("{t:?}");
        d.split('(').next().unwrap_or("").to_string()
    };
    let mut sid = 1u64;
    out.ev(sid, "Reset", json!({}));
    for (name, t) in &named {
        let text = t.as_str().to_string();
        let parsed = variant_of(&ContentType::parse(&text));
        out.ev(sid, "Ct", json!({"variant": name, "text": text, "parsed": parsed}));
    }
    let words = ["", "a", "/x", "/a/b?c=d", "GET", "POST", "no-cache", "v 1", "x,y", "Z"];
    let text_of = |r: &mut StdRng| -> String { (0..r.gen_range(0..4)).map(|_| *words.choose(r).unwrap()).collect::<Vec<_>>().join(" ") };
    for _ in 0..n {
        sid += 1;
        if !out.wants(sid) {
            continue;
        }
        let mut ops: Vec<Value> = vec![];
        let s0 = text_of(&mut r);
        let code = *[100u16, 101, 199, 200, 204, 299, 300, 304, 399, 400, 404, 499, 500, 503, 599, 600, 999].choose(&mut r).unwrap();
        let methods: Vec<&'static str> = (0..r.gen_range(0..4)).map(|_| *["GET", "POST", "PUT", "HEAD", "DELETE"].choose(&mut r).unwrap()).collect();
        let which = r.gen_range(0..18);
        let built = catch(|| {
            let mut resp = match which {
                0 => { ops.push(json!({"op":"ok_200"})); Response::ok_200() }
                1 => { ops.push(json!({"op":"no_content_204"})); Response::no_content_204() }
                2 => { ops.push(json!({"op":"redirect_301","s":s0})); Response::redirect_301(&s0) }
                3 => { ops.push(json!({"op":"redirect_303","s":s0})); Response::redirect_303(&s0) }
                4 => { ops.push(json!({"op":"unauthorized_401"})); Response::unauthorized_401() }
                5 => { ops.push(json!({"op":"forbidden_403"})); Response::forbidden_403() }
                6 => { ops.push(json!({"op":"not_found_404"})); Response::not_found_404() }
                7 => { ops.push(json!({"op":"method_not_allowed_405","list":methods})); Response::method_not_allowed_405(&methods) }
                8 => { ops.push(json!({"op":"length_required_411"})); Response::length_required_411() }
                9 => { ops.push(json!({"op":"payload_too_large_413"})); Response::payload_too_large_413() }
                10 => { ops.push(json!({"op":"unprocessable_entity_422","s":s0})); Response::unprocessable_entity_422(s0.clone()) }
                11 => { ops.push(json!({"op":"too_many_requests_429"})); Response::too_many_requests_429() }
                12 => { ops.push(json!({"op":"internal_server_error_500"})); Response::internal_server_error_500() }
                13 => { ops.push(json!({"op":"not_implemented_501"})); Response::not_implemented_501() }
                14 => { ops.push(json!({"op":"service_unavailable_503"})); Response::service_unavailable_503() }
                15 => { ops.push(json!({"op":"new","n":code})); Response::new(code) }
                16 => { ops.push(json!({"op":"text","n":code,"s":s0})); Response::text(code, s0.clone()) }
                _ => { ops.push(json!({"op":"html","n":code,"s":s0})); Response::html(code, s0.clone()) }
            };
            for _ in 0..r.gen_range(0..6) {
                let s = text_of(&mut r);
                resp = match r.gen_range(0..6) {
                    0 => { ops.push(json!({"op":"with_body","s":s})); resp.with_body(s) }
                    1 => {
                        let secs = *[0u32, 1, 59, 60, 3600, 86_400, u32::MAX - 1, u32::MAX].choose(&mut r).unwrap();
                        ops.push(json!({"op":"with_max_age_seconds","s":secs.to_string()}));
                        resp.with_max_age_seconds(secs)
                    }
                    2 => { ops.push(json!({"op":"with_no_store"})); resp.with_no_store() }
                    3 => {
                        let name = *["x-a", "X-A", "cache-control", "location", "allow", "set-cookie"].choose(&mut r).unwrap();
                        ops.push(json!({"op":"with_header","name":name,"s":s}));
                        resp.with_header(name, s.try_into().unwrap())
                    }
                    4 => {
                        let c = *[100u16, 200, 204, 301, 404, 500, 599, 700].choose(&mut r).unwrap();
                        ops.push(json!({"op":"with_status","n":c}));
                        resp.with_status(c)
                    }
                    _ => {
                        if r.gen_bool(0.8) {
                            let (name, t) = named.choose(&mut r).unwrap().clone();
                            ops.push(json!({"op":"with_type","s":name,"text":""}));
                            resp.with_type(t)
                        } else {
                            let text = format!("application/x-{}", r.gen_range(0..5));
                            ops.push(json!({"op":"with_type","s":"String","text":text}));
                            resp.with_type(ContentType::String(text))
                        }
                    }
                };
            }
            resp
        });
        out.ev(sid, "Reset", json!({}));
        let got = match built {
            Ok(resp) => {
                let mut body = Vec::new();
                let readable = resp.body.reader().map(|mut rd| std::io::Read::read_to_end(&mut rd, &mut body).is_ok()).unwrap_or(false);
                json!({"panic": false, "code": resp.code, "normal": resp.is_normal(), "ctype": resp.content_type.as_str(),
                       "hdrs": resp.headers.iter().map(|h| json!([h.name.as_str(), h.value.as_str()])).collect::<Vec<_>>(),
                       "body": if readable { String::from_utf8_lossy(&body).to_string() } else { "<unreadable>".to_string() },
                       "is1": resp.is_1xx(), "is2": resp.is_2xx(), "is3": resp.is_3xx(), "is4": resp.is_4xx(), "is5": resp.is_5xx()})
            }
            Err(()) => json!({"panic": true, "code": 0, "normal": false, "ctype": "", "hdrs": [], "body": "", "is1": false, "is2": false, "is3": false, "is4": false, "is5": false}),
        };
        out.ev(sid, "Build", json!({"ops": ops, "got": got}));
    }
    out.finish();
}
