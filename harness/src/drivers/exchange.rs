//! C04 / C09 / C10: request histories against a real `HttpServerBuilder::spawn` server.
//!  `exchange-gen`  random histories of 1..12 requests per connection, scripted handler,
//!                  several client delivery schedules
//!  `limits`        the S x M x L x declared x expect x cache-dir cross product, client
//!                  disconnects at offset classes, concurrent uploads, removed cache dir
//! Events of one connection are taken from servlin's hook log (sequence numbers assigned
//! inside servlin), so handler calls, responses written, bytes copied to disk and the end
//! of the connection task are totally ordered without any wall clock.
use crate::common::*;
use rand::prelude::*;
use serde_json::{json, Value};
use servlin::*;
use std::collections::HashMap;
use std::io::{Read, Write};
use std::sync::{Arc, Mutex};
use std::time::{Duration, Instant};

#[derive(Clone, Debug)]
pub enum Ans {
    Normal(u16),
    Fetch(u64),
    Drop,
    Panic,
    /// answers 200 once the harness opens the gate: a handler that keeps its thread of the blocking pool busy
    Gated,
    /// asks for the body (limit M) once the harness opens the gate
    GatedFetch(u64),
}
static GATE: (Mutex<bool>, std::sync::Condvar) = (Mutex::new(false), std::sync::Condvar::new());
fn set_gate(open: bool) {
    *GATE.0.lock().unwrap() = open;
    GATE.1.notify_all();
}
fn ans_json(a: &Ans) -> Value {
    match a {
        Ans::Gated => json!({"k":"Normal","code":200,"max":[48]}),
        Ans::GatedFetch(m) => json!({"k":"Fetch","code":0,"max":adigits(*m)}),
        Ans::Normal(c) => json!({"k":"Normal","code":c,"max":[48]}),
        Ans::Fetch(m) => json!({"k":"Fetch","code":0,"max":adigits(*m)}),
        Ans::Drop => json!({"k":"Drop","code":0,"max":[48]}),
        Ans::Panic => json!({"k":"Panic","code":0,"max":[48]}),
    }
}
/// ASCII decimal digits of a number (Bytes!DecLeq compares these).
pub fn adigits<T: ToString>(n: T) -> Value {
    ints(n.to_string().as_bytes())
}
/// digest with the empty string normalised to 0
fn dg(b: &[u8]) -> u64 {
    if b.is_empty() {
        0
    } else {
        digest(b)
    }
}

#[derive(Clone, Debug)]
pub struct Req {
    pub kind: &'static str, // none | known | unknown | malformed
    pub declared: u64,
    pub body: Vec<u8>, // the bytes really sent
    pub expect: bool,
    pub answers: Vec<Ans>,
    pub dir_gone: bool,
    /// bytes of padding in an extra header field (heads of about 1 KiB make a pipelined batch overrun the 8 KiB buffer)
    pub pad: usize,
    /// the disk refuses the upload part-way (file size limit of the server's process)
    pub disk_fail: bool,
}
impl Req {
    fn full(&self) -> bool {
        self.kind != "known" || self.body.len() as u64 == self.declared
    }
    fn json(&self) -> Value {
        json!({"kind": self.kind, "L": adigits(self.declared), "sent": adigits(self.body.len()), "digest": dg(&self.body),
               "full": self.full(), "expect": self.expect, "answers": self.answers.iter().map(ans_json).collect::<Vec<_>>(),
               "dirGone": self.dir_gone, "diskFail": self.disk_fail, "rst": false, "contFail": false})
    }
    fn head(&self, path: &str) -> Vec<u8> {
        let mut m = match self.kind {
            "none" => format!("GET {path} HTTP/1.1\r\n"),
            "known" => format!("PUT {path} HTTP/1.1\r\ncontent-length: {}\r\n", self.declared),
            // (both methods for which a body of undeclared length is assumed)
            "unknown" => format!("{} {path} HTTP/1.1\r\n", if path.bytes().map(usize::from).sum::<usize>() % 2 == 0 { "POST" } else { "PUT" }),
            _ => format!("GET {path} HTTP/1.1\r\nbad header line\r\n"),
        };
        if self.expect {
            m.push_str("expect: 100-continue\r\n");
        }
        if self.pad > 0 {
            m.push_str("x-pad: ");
            m.push_str(&"p".repeat(self.pad));
            m.push_str("\r\n");
        }
        m.push_str("\r\n");
        m.into_bytes()
    }
}

type Script = Arc<Mutex<HashMap<String, (Vec<Ans>, usize)>>>;
#[derive(Clone, Debug)]
struct CallDetail {
    path: String,
    n: usize,
    body: &'static str,
    len: u64,
    digest: u64,
}
type Calls = Arc<Mutex<Vec<CallDetail>>>;

struct Server {
    addr: std::net::SocketAddr,
    script: Script,
    calls: Calls,
    cache: Option<temp_dir::TempDir>,
    small: usize,
    _permit: permit::Permit,
}

fn start_server(executor: &Arc<safina::executor::Executor>, small: usize, cache_on: bool, max_conns: usize) -> Server {
    let script: Script = Arc::new(Mutex::new(HashMap::new()));
    let calls: Calls = Arc::new(Mutex::new(Vec::new()));
    let (script2, calls2) = (script.clone(), calls.clone());
    // Copies of requests that the handler keeps beyond its response (every other scenario), the way a handler that
    // queues work does.  A temp file must be gone once its request is answered whether or not a copy is still alive;
    // the copies are released only many scenarios later, long after the directory listing that judges them.
    let stash: Arc<Mutex<Vec<Request>>> = Arc::new(Mutex::new(Vec::new()));
    let handler = move |req: Request| {
        let path = req.url().path().to_string();
        let (ans, n) = {
            let mut g = script2.lock().unwrap();
            match g.get_mut(&path) {
                Some(e) => {
                    e.1 += 1;
                    (e.0.get(e.1 - 1).cloned().unwrap_or(Ans::Normal(299)), e.1)
                }
                None => (Ans::Normal(298), 0),
            }
        };
        let (bk, blen, bdig) = match &req.body {
            RequestBody::PendingKnown(l) => ("Pending", *l, 0),
            RequestBody::PendingUnknown => ("Pending", 0, 0),
            RequestBody::Vec(v) => ("Mem", v.len() as u64, dg(v)),
            RequestBody::StaticStr(s) => ("Mem", s.len() as u64, dg(s.as_bytes())),
            RequestBody::StaticBytes(b) => ("Mem", b.len() as u64, dg(b)),
            RequestBody::TempFile(..) | RequestBody::File(..) => {
                // the three ways a handler reads an uploaded file: the blocking reader, the async reader, the conversion
                let mut v = Vec::new();
                match req.remote_addr.port() % 3 {
                    0 => {
                        req.body.reader().unwrap().read_to_end(&mut v).unwrap();
                    }
                    1 => futures_lite::future::block_on(async {
                        use futures_lite::AsyncReadExt;
                        req.body.async_reader().await.unwrap().read_to_end(&mut v).await.unwrap();
                    }),
                    _ => v = Vec::<u8>::try_from(req.body.clone()).unwrap(),
                }
                ("File", v.len() as u64, dg(&v))
            }
        };
        let scen: u64 = path.strip_prefix("/s").and_then(|t| t.split('/').next()).and_then(|t| t.parse().ok()).unwrap_or(1);
        if bk == "File" && scen % 2 == 0 {
            let mut g = stash.lock().unwrap();
            g.push(req.clone());
            if g.len() > 64 {
                g.drain(..32);
            }
        }
        let id = {
            let mut c = calls2.lock().unwrap();
            c.push(CallDetail { path: path.clone(), n, body: bk, len: blen, digest: bdig });
            c.len() - 1
        };
        servlin::verif::emit("HCall", u64::from(req.remote_addr.port()), id as u64);
        match ans {
            Ans::Normal(c) => Response::text(c, format!("tag:{path}:{n}")),
            Ans::Fetch(m) => Response::get_body_and_reprocess(m),
            Ans::Drop => Response::drop_connection(),
            Ans::Panic => panic!("scripted handler panic"),
            Ans::Gated => {
                let g = GATE.0.lock().unwrap();
                let _g = GATE.1.wait_timeout_while(g, Duration::from_secs(20), |open| !*open).unwrap();
                Response::text(200, format!("tag:{path}:{n}"))
            }
            Ans::GatedFetch(m) => {
                let g = GATE.0.lock().unwrap();
                let _g = GATE.1.wait_timeout_while(g, Duration::from_secs(20), |open| !*open).unwrap();
                Response::get_body_and_reprocess(m)
            }
        }
    };
    let permit = permit::Permit::new();
    let cache = if cache_on { Some(temp_dir::TempDir::new().unwrap()) } else { None };
    let mut b = HttpServerBuilder::new().max_conns(max_conns).small_body_len(small).permit(permit.new_sub());
    if let Some(c) = &cache {
        b = b.receive_large_bodies(c.path());
    }
    let (addr, _stopped) = executor.block_on(b.spawn(handler)).unwrap();
    std::mem::forget(_stopped);
    Server { addr, script, calls, cache, small, _permit: permit }
}

/// Lexical projection of the client transcript: status code and whether the body is the
/// handler's own ("app", it starts with `tag:`) or the library's ("lib").
fn parse_wire(mut rest: &[u8]) -> (Vec<Value>, bool) {
    let mut out = vec![];
    while !rest.is_empty() {
        let Some(p) = rest.windows(4).position(|w| w == b"\r\n\r\n") else { return (out, false) };
        let head = String::from_utf8_lossy(&rest[..p]).to_string();
        let code: u64 = head.get(9..12).and_then(|s| s.parse().ok()).unwrap_or(0);
        let cl: usize = head.split("\r\n").find_map(|l| l.strip_prefix("content-length: ")).and_then(|s| s.parse().ok()).unwrap_or(0);
        if p + 4 + cl > rest.len() {
            return (out, false);
        }
        let body = &rest[p + 4..p + 4 + cl];
        let tag = String::from_utf8_lossy(body).to_string();
        out.push(json!({"code": code, "tag": if tag.starts_with("tag:") { "app".to_string() } else { "lib".to_string() }, "body": if tag.starts_with("tag:") { tag } else { String::new() }}));
        rest = &rest[p + 4 + cl..];
    }
    (out, true)
}

#[derive(Clone, Copy, Debug, PartialEq)]
enum Schedule {
    Single,
    Fragments,
    ByteAtATime,
    PingPong,
}

struct ClientResult {
    got: Vec<u8>,
    reset: bool,
    port: u16,
}

/// Sends the requests of one connection.  `cut` = Some(k): after the first k bytes of the
/// last request's body the client disconnects without reading.
fn drive_client(addr: std::net::SocketAddr, sid: u64, reqs: &[Req], sched: Schedule, cut: Option<usize>, r: &mut StdRng) -> ClientResult {
    let mut c = std::net::TcpStream::connect(addr).unwrap();
    let port = c.local_addr().unwrap().port();
    c.set_read_timeout(Some(Duration::from_secs(10))).unwrap();
    c.set_nodelay(true).unwrap();
    let mut msgs: Vec<Vec<u8>> = vec![];
    for (i, q) in reqs.iter().enumerate() {
        let mut b = q.head(&format!("/s{sid}/r{}", i + 1));
        let last = i + 1 == reqs.len();
        match (last, cut) {
            (true, Some(k)) => b.extend(&q.body[..k.min(q.body.len())]),
            _ => b.extend(&q.body),
        }
        msgs.push(b);
    }
    let mut got: Vec<u8> = vec![];
    let mut reset = false;
    let write = |c: &mut std::net::TcpStream, bytes: &[u8], r: &mut StdRng| match sched {
        Schedule::ByteAtATime if bytes.len() <= 600 => {
            for b in bytes {
                if c.write_all(&[*b]).is_err() {
                    break;
                }
            }
        }
        Schedule::Fragments | Schedule::ByteAtATime => {
            let mut pos = 0;
            while pos < bytes.len() {
                let k = r.gen_range(1..=4096.min(bytes.len() - pos));
                if c.write_all(&bytes[pos..pos + k]).is_err() {
                    break;
                }
                pos += k;
                if r.gen_bool(0.3) {
                    std::thread::sleep(Duration::from_micros(r.gen_range(50..800)));
                }
            }
        }
        _ => {
            let _ = c.write_all(bytes);
        }
    };
    if cut.is_some() {
        for m in &msgs {
            write(&mut c, m, r);
        }
        drop(c); // disconnect without reading
        return ClientResult { got, reset: true, port };
    }
    if sched == Schedule::PingPong {
        let mut eof = false;
        for (i, m) in msgs.iter().enumerate() {
            write(&mut c, m, r);
            // a body of undeclared length, or one that will never arrive in full, ends with the stream
            if reqs[i].kind == "unknown" || !reqs[i].full() {
                let _ = c.shutdown(std::net::Shutdown::Write);
            }
            let finals_before = parse_wire(&got).0.iter().filter(|t| t["code"].as_u64().map_or(false, |c| c >= 200)).count();
            loop {
                let (toks, complete) = parse_wire(&got);
                let finals = toks.iter().filter(|t| t["code"].as_u64().map_or(false, |c| c >= 200)).count();
                if complete && finals > finals_before {
                    break;
                }
                let mut buf = [0u8; 8192];
                match c.read(&mut buf) {
                    Ok(0) => {
                        eof = true;
                        break;
                    }
                    Ok(k) => got.extend_from_slice(&buf[..k]),
                    Err(_) => {
                        eof = true;
                        reset = true;
                        break;
                    }
                }
            }
            if eof {
                break;
            }
        }
        let _ = c.shutdown(std::net::Shutdown::Write);
        if !eof {
            let mut buf = [0u8; 8192];
            loop {
                match c.read(&mut buf) {
                    Ok(0) => break,
                    Ok(k) => got.extend_from_slice(&buf[..k]),
                    Err(_) => {
                        reset = true;
                        break;
                    }
                }
            }
        }
    } else {
        let all: Vec<u8> = msgs.concat();
        write(&mut c, &all, r);
        let _ = c.shutdown(std::net::Shutdown::Write);
        let mut buf = [0u8; 8192];
        loop {
            match c.read(&mut buf) {
                Ok(0) => break,
                Ok(k) => got.extend_from_slice(&buf[..k]),
                Err(_) => {
                    reset = true;
                    break;
                }
            }
        }
    }
    ClientResult { got, reset, port }
}

fn wait_conn_end(ports: &[u16]) -> bool {
    let deadline = Instant::now() + Duration::from_secs(15);
    loop {
        let snap = servlin::verif::snapshot();
        if ports.iter().all(|p| snap.iter().any(|r| r.kind == "ConnEnd" && r.a == u64::from(*p))) {
            return true;
        }
        if Instant::now() > deadline {
            missed_deadline();
            return false;
        }
        std::thread::sleep(Duration::from_micros(300));
    }
}

/// Writes the events of one connection in hook-log order, then the client's transcript and
/// the cache directory listing.
#[allow(clippy::too_many_arguments)]
fn log_conn(out: &mut Out, sid: u64, server: &Server, reqs: &[Req], meta: Value, recs: &[servlin::verif::Record], cr: &ClientResult, no_wire: bool, no_copied: bool, ended: bool, files: usize) {
    let mut reset = meta;
    reset["cfg"] = json!({"S": adigits(server.small), "cache": server.cache.is_some()});
    reset["reqs"] = Value::Array(reqs.iter().map(Req::json).collect());
    reset["noWire"] = json!(no_wire);
    reset["noCopied"] = json!(no_copied);
    if reset.get("pingpong").is_none() {
        reset["pingpong"] = json!(false);
    }
    out.ev(sid, "Reset", reset);
    let calls = server.calls.lock().unwrap().clone();
    let port = u64::from(cr.port);
    for r in recs {
        match r.kind {
            "ReqRead" if r.a == port => out.ev(sid, "ReqRead", json!({})),
            "HCall" if r.a == port => {
                let c = &calls[r.b as usize];
                let i: u64 = c.path.rsplit("/r").next().and_then(|s| s.parse().ok()).unwrap_or(0);
                out.ev(sid, "Call", json!({"i": i, "n": c.n, "body": c.body, "len": adigits(c.len), "digest": c.digest}));
            }
            "RespWritten" if r.a == port => out.ev(sid, "Resp", json!({"code": r.b, "ok": true})),
            "RespFailed" if r.a == port => out.ev(sid, "Resp", json!({"code": r.b, "ok": false})),
            "BodyCopied" if !no_copied => out.ev(sid, "Copied", json!({"n": adigits(r.a)})),
            "ConnEnd" if r.a == port => out.ev(sid, "ConnEnd", json!({})),
            _ => {}
        }
    }
    let (toks, complete) = parse_wire(&cr.got);
    out.ev(sid, "Wire", json!({"tokens": toks, "complete": complete, "reset": cr.reset, "ended": ended}));
    out.ev(sid, "Dir", json!({"files": files}));
}

fn body_bytes(sid: u64, idx: usize, len: usize) -> Vec<u8> {
    (0..len).map(|i| ((i as u64 * 31 + sid * 7 + idx as u64) % 251) as u8).collect()
}
fn count_files(server: &Server) -> usize {
    server.cache.as_ref().map_or(0, |c| std::fs::read_dir(c.path()).map(|d| d.count()).unwrap_or(0))
}

fn pick_answer(r: &mut StdRng) -> Ans {
    match r.gen_range(0..10) {
        0..=4 => Ans::Normal(*[200u16, 201, 302, 404, 500, 503, 200, 302, 100, 101, 103].choose(r).unwrap()),
        5..=7 => Ans::Fetch(*[0u64, 50, 250, 1000, u64::MAX - 1, u64::MAX].choose(r).unwrap()),
        8 => Ans::Drop,
        _ => Ans::Panic,
    }
}

pub fn run_gen(args: &Args, mut out: Out) {
    let n = args.u64("n", 300);
    let max_reqs = args.usize("max-reqs", 12);
    let mut r = args.rng();
    safina::timer::start_timer_thread();
    let executor = safina::executor::Executor::new(2, 8).unwrap();
    let small = 100usize;
    let server = start_server(&executor, small, true, 50);
    let server_nocache = start_server(&executor, small, false, 50);
    for sid in 1..=n {
        if give_up() {
            break;
        }
        let srv = if r.gen_bool(0.1) { &server_nocache } else { &server };
        // one history in eight is "fat": 9..12 requests with heads of about 1 KiB, so that a pipelined batch is larger
        // than the connection's 8 KiB buffer and a head straddles its end
        let fat = sid % 8 == 0;
        let nreq = if fat { r.gen_range(9..=max_reqs.max(9)) } else if r.gen_bool(0.7) { r.gen_range(1..=4) } else { r.gen_range(1..=max_reqs) };
        let mut reqs = vec![];
        for i in 0..nreq {
            let last = i + 1 == nreq;
            let kind = *["none", "small", "large", "unknown", "malformed"]
                .choose_weighted(&mut r, |k| match *k {
                    "none" => 5,
                    "small" => 4,
                    "large" => 3,
                    "unknown" => {
                        if last {
                            3
                        } else {
                            0
                        }
                    }
                    _ => 1,
                })
                .unwrap();
            let len = match kind {
                "small" => *[0usize, 1, 50, small].choose(&mut r).unwrap(),
                "large" => r.gen_range(small + 1..=small + 300),
                "unknown" => r.gen_range(0..=400),
                _ => 0,
            };
            // most answers keep the connection open so that long histories happen
            let a1 = if matches!(kind, "large" | "unknown") && r.gen_bool(0.7) {
                Ans::Fetch(*[0u64, 150, 250, 1000, u64::MAX].choose(&mut r).unwrap())
            } else if r.gen_bool(0.7) {
                Ans::Normal(*[200u16, 201, 302].choose(&mut r).unwrap())
            } else {
                pick_answer(&mut r)
            };
            let a2 = if r.gen_bool(0.7) { Ans::Normal(*[200u16, 204, 301].choose(&mut r).unwrap()) } else { pick_answer(&mut r) };
            let k2 = match kind {
                "small" | "large" => "known",
                other => other,
            };
            reqs.push(Req {
                kind: k2,
                declared: len as u64,
                body: body_bytes(sid, i, len),
                expect: !fat && k2 != "none" && k2 != "malformed" && r.gen_bool(0.2),
                answers: if fat && k2 != "malformed" { vec![Ans::Normal(200), Ans::Normal(200)] } else { vec![a1, a2] },
                dir_gone: false,
                pad: if fat { r.gen_range(700..1300) } else { 0 },
                disk_fail: false,
            });
        }
        // the last request's declared body may stop short: the client sends part of it and half-closes in an orderly way
        // (no reset).  The request was never received in full: 400, no (further) handler run, the connection ends.
        if let Some(q) = reqs.last_mut() {
            if q.kind == "known" && !q.body.is_empty() && r.gen_bool(0.15) {
                let keep = *[0usize, 1, q.body.len() / 2, q.body.len() - 1].choose(&mut r).unwrap();
                q.body.truncate(keep);
            }
        }
        let any_expect = reqs.iter().any(|q| q.expect);
        let sched = if any_expect {
            Schedule::PingPong
        } else if fat {
            *[Schedule::Single, Schedule::Single, Schedule::Fragments].choose(&mut r).unwrap()
        } else {
            *[Schedule::Single, Schedule::Fragments, Schedule::ByteAtATime, Schedule::PingPong].choose(&mut r).unwrap()
        };
        if !out.wants(sid) {
            continue;
        }
        {
            let mut g = srv.script.lock().unwrap();
            g.clear();
            for (i, q) in reqs.iter().enumerate() {
                g.insert(format!("/s{sid}/r{}", i + 1), (q.answers.clone(), 0));
            }
        }
        srv.calls.lock().unwrap().clear();
        servlin::verif::start();
        let cr = drive_client(srv.addr, sid, &reqs, sched, None, &mut r);
        let ended = wait_conn_end(&[cr.port]);
        let recs = servlin::verif::take();
        let files = count_files(srv);
        log_conn(&mut out, sid, srv, &reqs, json!({"schedule": format!("{sched:?}"), "pingpong": sched == Schedule::PingPong}), &recs, &cr, false, false, ended, files);
    }
    take_panics();
    out.finish();
}

pub fn run_limits(args: &Args, mut out: Out) {
    let tier = args.usize("thorough", 0);
    let mut r = args.rng();
    safina::timer::start_timer_thread();
    let executor = safina::executor::Executor::new(4, 8).unwrap();
    let mut sid = 0u64;
    for s in [0usize, 1, 100, 65536] {
        for cache_on in [true, false] {
            let server = start_server(&executor, s, cache_on, 20);
            let su = s as u64;
            let mut ms: Vec<u64> = vec![0, 1, su.saturating_sub(1), su, su + 1, 70_000, 1 << 63, u64::MAX];
            ms.sort_unstable();
            ms.dedup();
            for m in ms {
                let mut ls: Vec<u64> = vec![0, 1, su.saturating_sub(1), su, su + 1, m.saturating_sub(1), m, m.saturating_add(1), m.saturating_add(2)];
                ls.sort_unstable();
                ls.dedup();
                for l in ls {
                    for declared in [true, false] {
                        for expect in [false, true] {
                            // offset classes at which the client disconnects: none, 0, 1, mid, buffer boundary, len-1
                            let cuts: Vec<Option<usize>> = vec![None, Some(0), Some(1), Some(usize::MAX / 2), Some(8192), Some(usize::MAX - 1)];
                            for cut in cuts {
                                let send_len = if l <= 70_002 { l as usize } else { 0 };
                                if !declared && l > 70_002 {
                                    continue;
                                }
                                // lengths above 70 002 are only declared, never sent: the client then sends nothing and half-closes
                                let cut_at = match cut {
                                    None => None,
                                    Some(k) if k == usize::MAX / 2 => Some(send_len / 2),
                                    Some(k) if k == usize::MAX - 1 => Some(send_len.saturating_sub(1)),
                                    Some(k) => Some(k),
                                };
                                if let Some(k) = cut_at {
                                    // disconnect scenarios on a subset (they cost a connection each)
                                    if send_len < 3 || k >= send_len || (tier == 0 && l % 7 != 0 && l != su + 1 && l != m) {
                                        continue;
                                    }
                                }
                                sid += 1;
                                if !out.wants(sid) || give_up() {
                                    continue;
                                }
                                let body_all = body_bytes(sid, 0, send_len);
                                let upto = cut_at.unwrap_or(send_len);
                                let q = Req {
                                    kind: if declared { "known" } else { "unknown" },
                                    declared: if declared { l } else { 0 },
                                    body: body_all[..upto].to_vec(),
                                    expect,
                                    answers: vec![Ans::Fetch(m), Ans::Normal(200)],
                                    dir_gone: false,
                pad: 0,
                disk_fail: false,
                                };
                                {
                                    let mut g = server.script.lock().unwrap();
                                    g.clear();
                                    g.insert(format!("/s{sid}/r1"), (q.answers.clone(), 0));
                                }
                                server.calls.lock().unwrap().clear();
                                servlin::verif::start();
                                let reqs = vec![q];
                                let sched = if expect { Schedule::PingPong } else { Schedule::Single };
                                // a declared body that is not sent in full and not cut: the client half-closes early (Truncated)
                                let cr = if cut_at.is_some() {
                                    drive_client(server.addr, sid, &reqs, Schedule::Single, Some(upto), &mut r)
                                } else {
                                    drive_client(server.addr, sid, &reqs, sched, None, &mut r)
                                };
                                let ended = wait_conn_end(&[cr.port]);
                                let recs = servlin::verif::take();
                                let files = count_files(&server);
                                log_conn(
                                    &mut out,
                                    sid,
                                    &server,
                                    &reqs,
                                    json!({"M": adigits(m), "Lval": adigits(l), "cut": cut_at.is_some(), "pingpong": true}),
                                    &recs,
                                    &cr,
                                    cut_at.is_some(),
                                    false,
                                    ended,
                                    files,
                                );
                            }
                        }
                    }
                }
            }
        }
    }
    // ---- C10: handler outcomes after receipt x concurrency x removed cache dir ----
    let server = start_server(&executor, 100, true, 20);
    let outcomes = [Ans::Normal(200), Ans::Normal(500), Ans::Drop, Ans::Panic, Ans::Fetch(1000)];
    let rounds = if tier > 0 { 40 } else { 8 };
    for round in 0..rounds {
        let k = 1 + round % 4; // 1..4 concurrent uploads
        let mut batch: Vec<(u64, Vec<Req>, Option<usize>)> = vec![];
        for j in 0..k {
            sid += 1;
            let len = *[150usize, 5000, 9000, 70_000].choose(&mut r).unwrap();
            let declared = r.gen_bool(0.5);
            let cut = if r.gen_bool(0.4) { Some(*[0usize, 1, len / 2, 8192.min(len - 1), len - 1].choose(&mut r).unwrap()) } else { None };
            let body_all = body_bytes(sid, 0, len);
            let upto = cut.unwrap_or(len);
            let q = Req {
                kind: if declared { "known" } else { "unknown" },
                declared: if declared { len as u64 } else { 0 },
                body: body_all[..upto].to_vec(),
                expect: false,
                answers: vec![Ans::Fetch(*[100_000u64, 200, u64::MAX].choose(&mut r).unwrap()), outcomes[(round + j) % outcomes.len()].clone()],
                dir_gone: false,
                pad: 0,
                disk_fail: false,
            };
            batch.push((sid, vec![q], cut));
        }
        if !batch.iter().any(|(s, _, _)| out.wants(*s)) {
            continue;
        }
        {
            let mut g = server.script.lock().unwrap();
            g.clear();
            for (s, reqs, _) in &batch {
                g.insert(format!("/s{s}/r1"), (reqs[0].answers.clone(), 0));
            }
        }
        server.calls.lock().unwrap().clear();
        servlin::verif::start();
        let addr = server.addr;
        let handles: Vec<_> = batch
            .iter()
            .map(|(s, reqs, cut)| {
                let (s, reqs, cut) = (*s, reqs.clone(), *cut);
                let mut rr = StdRng::seed_from_u64(s);
                std::thread::spawn(move || drive_client(addr, s, &reqs, Schedule::Fragments, cut, &mut rr))
            })
            .collect();
        let results: Vec<ClientResult> = handles.into_iter().map(|h| h.join().unwrap()).collect();
        let ports: Vec<u16> = results.iter().map(|c| c.port).collect();
        let ended = wait_conn_end(&ports);
        let recs = servlin::verif::take();
        let files = count_files(&server);
        for ((s, reqs, cut), cr) in batch.iter().zip(results.iter()) {
            log_conn(&mut out, *s, &server, reqs, json!({"concurrent": k, "cut": cut.is_some()}), &recs, cr, cut.is_some(), k > 1, ended, files);
        }
    }
    // ---- cache dir removed before the upload ----
    for j in 0..(if tier > 0 { 12 } else { 4 }) {
        sid += 1;
        if !out.wants(sid) {
            continue;
        }
        let gone_server = start_server(&executor, 100, true, 5);
        std::fs::remove_dir_all(gone_server.cache.as_ref().unwrap().path()).unwrap();
        let len = 500 + j * 100;
        let q = Req {
            kind: if j % 2 == 0 { "known" } else { "unknown" },
            declared: if j % 2 == 0 { len as u64 } else { 0 },
            body: body_bytes(sid, 0, len),
            expect: false,
            answers: vec![Ans::Fetch(100_000), Ans::Normal(200)],
            dir_gone: true,
            pad: 0,
                disk_fail: false,
        };
        gone_server.script.lock().unwrap().insert(format!("/s{sid}/r1"), (q.answers.clone(), 0));
        servlin::verif::start();
        let reqs = vec![q];
        let cr = drive_client(gone_server.addr, sid, &reqs, Schedule::Single, None, &mut r);
        let ended = wait_conn_end(&[cr.port]);
        let recs = servlin::verif::take();
        log_conn(&mut out, sid, &gone_server, &reqs, json!({"dirGone": true}), &recs, &cr, false, false, ended, 0);
    }
    // ---- every thread of the handler pool busy while an upload is refused or abandoned: the temp file must be gone when
    // the upload's connection has ended, not when some pool thread gets round to it ----
    let busy_exec = safina::executor::Executor::new(2, 1).unwrap();
    let busy = start_server(&busy_exec, 100, true, 20);
    for j in 0..(if tier > 0 { 12 } else { 4 }) {
        sid += 2;
        let (sid_b, sid_a) = (sid - 1, sid);
        if !out.wants(sid_b) {
            continue;
        }
        let limit = [10u64, 200, 9000, 70_000][j % 4];
        let over = j % 3 != 2; // two in three exceed the limit (413); the others are abandoned by the client half-way
        // (an upload of undeclared length that exceeds the limit; or one of declared length that the client leaves half-way)
        let qb = if over {
            Req { kind: "unknown", declared: 0, body: body_bytes(sid_b, 0, limit as usize + 10), expect: false,
                  answers: vec![Ans::Fetch(limit), Ans::Normal(200)], dir_gone: false, pad: 0, disk_fail: false }
        } else {
            Req { kind: "known", declared: 5000 + limit, body: body_bytes(sid_b, 0, 2500), expect: false,
                  answers: vec![Ans::Fetch(100_000), Ans::Normal(200)], dir_gone: false, pad: 0, disk_fail: false }
        };
        let qa = Req { kind: "none", declared: 0, body: vec![], expect: false, answers: vec![Ans::Gated], dir_gone: false, pad: 0, disk_fail: false };
        {
            let mut g = busy.script.lock().unwrap();
            g.clear();
            g.insert(format!("/s{sid_b}/r1"), (qb.answers.clone(), 0));
            g.insert(format!("/s{sid_a}/r1"), (qa.answers.clone(), 0));
        }
        busy.calls.lock().unwrap().clear();
        set_gate(false);
        servlin::verif::start();
        let hcalls = |port: u16| servlin::verif::snapshot().iter().filter(|r| r.kind == "HCall" && r.a == u64::from(port)).count();
        let wait_for = |f: &dyn Fn() -> bool| {
            let deadline = Instant::now() + Duration::from_secs(10);
            while !f() && Instant::now() < deadline {
                std::thread::sleep(Duration::from_micros(300));
            }
            f()
        };
        // B: the head of an upload of undeclared length; its handler asks for the body
        let mut b = std::net::TcpStream::connect(busy.addr).unwrap();
        let port_b = b.local_addr().unwrap().port();
        b.set_read_timeout(Some(Duration::from_secs(10))).unwrap();
        b.write_all(&qb.head(&format!("/s{sid_b}/r1"))).unwrap();
        let ok1 = wait_for(&|| hcalls(port_b) >= 1);
        // A: a request whose handler holds the only pool thread
        let mut a = std::net::TcpStream::connect(busy.addr).unwrap();
        let port_a = a.local_addr().unwrap().port();
        a.set_read_timeout(Some(Duration::from_secs(25))).unwrap();
        a.write_all(&qa.head(&format!("/s{sid_a}/r1"))).unwrap();
        let ok2 = wait_for(&|| hcalls(port_a) >= 1);
        // B: the body
        let _ = b.write_all(&qb.body);
        let mut got_b = vec![];
        let mut reset_b = false;
        if over {
            let _ = b.shutdown(std::net::Shutdown::Write);
            if b.read_to_end(&mut got_b).is_err() {
                reset_b = true;
            }
        } else {
            drop(b); // gone half-way, without reading
            reset_b = true;
        }
        let ended_b = wait_conn_end(&[port_b]);
        let files_b = count_files(&busy); // A's handler still holds the pool
        set_gate(true);
        let mut got_a = vec![];
        let _ = a.shutdown(std::net::Shutdown::Write);
        let reset_a = a.read_to_end(&mut got_a).is_err();
        let ended_a = wait_conn_end(&[port_a]);
        let recs = servlin::verif::take();
        let files_a = count_files(&busy);
        if !(ok1 && ok2) {
            missed_deadline();
        }
        let crb = ClientResult { got: got_b, reset: reset_b, port: port_b };
        let cra = ClientResult { got: got_a, reset: reset_a, port: port_a };
        log_conn(&mut out, sid_b, &busy, &[qb], json!({"poolBusy": true, "cut": !over}), &recs, &crb, !over, false, ended_b, files_b);
        log_conn(&mut out, sid_a, &busy, &[qa], json!({"poolBusy": true}), &recs, &cra, false, true, ended_a, files_a);
    }
    set_gate(true);
    // ---- the connection is already broken when the server wants to invite the upload (Expect: 100-continue): the client
    // pipelines a small request ahead of the upload, leaves its answer unread and resets the connection while the upload's
    // handler has not answered yet.  Whatever the server had prepared for the upload must be gone when the connection ends ----
    for j in 0..(if tier > 0 { 16 } else { 6 }) {
        sid += 1;
        if !out.wants(sid) {
            continue;
        }
        let q1 = Req { kind: "none", declared: 0, body: vec![], expect: false, answers: vec![Ans::Normal(200)], dir_gone: false, pad: 0, disk_fail: false };
        let known = j % 2 == 0;
        let q2 = Req { kind: if known { "known" } else { "unknown" }, declared: if known { 5000 } else { 0 }, body: vec![], expect: true,
                       answers: vec![Ans::GatedFetch(100_000), Ans::Normal(200)], dir_gone: false, pad: 0, disk_fail: false };
        {
            let mut g = server.script.lock().unwrap();
            g.clear();
            g.insert(format!("/s{sid}/r1"), (q1.answers.clone(), 0));
            g.insert(format!("/s{sid}/r2"), (q2.answers.clone(), 0));
        }
        server.calls.lock().unwrap().clear();
        set_gate(false);
        servlin::verif::start();
        let mut c = std::net::TcpStream::connect(server.addr).unwrap();
        let port = c.local_addr().unwrap().port();
        let mut wire = q1.head(&format!("/s{sid}/r1"));
        wire.extend(q2.head(&format!("/s{sid}/r2")));
        c.write_all(&wire).unwrap();
        let deadline = Instant::now() + Duration::from_secs(10);
        while servlin::verif::snapshot().iter().filter(|r| r.kind == "HCall" && r.a == u64::from(port)).count() < 2 && Instant::now() < deadline {
            std::thread::sleep(Duration::from_micros(300));
        }
        {
            use std::os::fd::AsRawFd;
            let lg = libc::linger { l_onoff: 1, l_linger: 0 };
            unsafe {
                libc::setsockopt(c.as_raw_fd(), libc::SOL_SOCKET, libc::SO_LINGER, std::ptr::addr_of!(lg).cast(), std::mem::size_of::<libc::linger>() as u32);
            }
        }
        drop(c); // reset
        std::thread::sleep(Duration::from_millis(5));
        set_gate(true);
        let ended = wait_conn_end(&[port]);
        let recs = servlin::verif::take();
        let files = count_files(&server);
        let cr = ClientResult { got: vec![], reset: true, port };
        log_conn(&mut out, sid, &server, &[q1, q2], json!({"contFail": true, "cut": true}), &recs, &cr, true, false, ended, files);
    }
    set_gate(true);
    take_panics();
    out.finish();
}

// ------------------------------------------------------------------------------ recv-body
/// `Request::recv_body(M)` for every body state x length x limit at the boundaries (C09's helper anchor).
pub fn run_recv_body(_args: &Args, mut out: Out) {
    use fixed_buffer::FixedBuf;
    let lens: Vec<u64> = vec![0, 1, 99, 100, 101, 65536, 1 << 31, 1 << 63, u64::MAX - 1, u64::MAX];
    let mut sid = 0u64;
    let make = |extra: &str| -> Request {
        let wire = format!("PUT /x HTTP/1.1\r\n{extra}\r\n");
        let mut buf: FixedBuf<8192> = FixedBuf::new();
        let mut rd = ScriptedReader::new(wire.into_bytes(), vec![]);
        poll_budget(servlin::internal::read_http_request(localhost(1), &mut buf, &mut rd), 100).unwrap().unwrap()
    };
    for &l in &lens {
        for &m in &lens {
            // (state, known, body constructor)
            let mut cases: Vec<(&str, bool, Request)> = vec![];
            let mut a = make(&format!("content-length: {l}\r\n"));
            a.body = RequestBody::PendingKnown(l);
            cases.push(("pending", true, a));
            cases.push(("pending", false, make("transfer-encoding: chunked\r\n")));
            if l <= 65536 {
                let mut b = make("");
                b.body = RequestBody::Vec(vec![7u8; l as usize]);
                cases.push(("received", true, b));
            }
            for (state, known, req) in cases {
                sid += 1;
                if !out.wants(sid) {
                    continue;
                }
                let res = catch(|| req.recv_body(m));
                let outv = match &res {
                    Err(()) => json!({"k":"Panic","code":0,"fetch":[]}),
                    Ok(Ok(_)) => json!({"k":"Ok","code":0,"fetch":[]}),
                    Ok(Err(resp)) => match resp.kind {
                        servlin::internal::ResponseKind::GetBodyAndReprocess(n) => json!({"k":"Fetch","code":0,"fetch":adigits(n)}),
                        servlin::internal::ResponseKind::Normal => json!({"k":"Resp","code":resp.code,"fetch":[]}),
                        servlin::internal::ResponseKind::DropConnection => json!({"k":"Drop","code":0,"fetch":[]}),
                    },
                };
                out.ev(sid, "Reset", json!({}));
                out.ev(sid, "RecvBody", json!({"state":state,"known":known,"L":adigits(if known { l } else { 0 }),"M":adigits(m),"out":outv,"panic":res.is_err()}));
            }
        }
    }
    out.finish();
}

// ------------------------------------------------------------------------------ upload-diskfull
/// C10, "disk write failure": uploads into a cache directory while the server's process may not grow a file beyond
/// 4096 bytes (RLIMIT_FSIZE, SIGXFSZ ignored, so the write fails with EFBIG).  The limit is process-wide, so the scenarios
/// run in a child process whose only regular-file writes are servlin's temp files: the child writes its events to
/// stderr (a pipe), servlin's own prints go to stdout (/dev/null).
pub fn run_diskfull(args: &Args, mut out: Out) {
    let n = args.u64("n", 8);
    let exe = std::env::current_exe().unwrap();
    let res = std::process::Command::new(exe)
        .args(["diskfull-child", "--out", "/dev/stderr", "--n", &n.to_string(), "--seed", &args.seed().to_string()])
        .stdout(std::process::Stdio::null())
        .stderr(std::process::Stdio::piped())
        .output()
        .unwrap();
    for line in String::from_utf8_lossy(&res.stderr).lines() {
        if !line.starts_with('{') {
            continue;
        }
        let Ok(Value::Object(mut m)) = serde_json::from_str::<Value>(line) else { continue };
        let sid = m.remove("sid").and_then(|v| v.as_u64()).unwrap_or(0);
        let ev = m.remove("ev").and_then(|v| v.as_str().map(str::to_string)).unwrap_or_default();
        if out.wants(sid) {
            out.ev(sid, &ev, Value::Object(m));
        }
    }
    out.finish();
}

pub fn run_diskfull_child(args: &Args, mut out: Out) {
    let n = args.u64("n", 8);
    let mut r = args.rng();
    safina::timer::start_timer_thread();
    let executor = safina::executor::Executor::new(2, 4).unwrap();
    unsafe { libc::signal(libc::SIGXFSZ, libc::SIG_IGN) };
    let mut old = libc::rlimit { rlim_cur: 0, rlim_max: 0 };
    unsafe { libc::getrlimit(libc::RLIMIT_FSIZE, &mut old) };
    for sid in 1..=n {
        let server = start_server(&executor, 100, true, 5);
        let len = *[4097usize, 5000, 20_000, 70_000].choose(&mut r).unwrap();
        let known = sid % 2 == 0;
        let q = Req {
            kind: if known { "known" } else { "unknown" },
            declared: if known { len as u64 } else { 0 },
            body: body_bytes(sid, 0, len),
            expect: sid % 4 == 3,
            answers: vec![Ans::Fetch(1_000_000), Ans::Normal(200)],
            dir_gone: false,
            pad: 0,
            disk_fail: true,
        };
        server.script.lock().unwrap().insert(format!("/s{sid}/r1"), (q.answers.clone(), 0));
        servlin::verif::start();
        let reqs = vec![q];
        let lim = libc::rlimit { rlim_cur: 4096, rlim_max: old.rlim_max };
        unsafe { libc::setrlimit(libc::RLIMIT_FSIZE, &lim) };
        let sched = if reqs[0].expect { Schedule::PingPong } else { Schedule::Single };
        let cr = drive_client(server.addr, sid, &reqs, sched, None, &mut r);
        let ended = wait_conn_end(&[cr.port]);
        unsafe { libc::setrlimit(libc::RLIMIT_FSIZE, &old) };
        let recs = servlin::verif::take();
        let files = count_files(&server);
        // (the byte count handed to the buffered file writer before its close failed says nothing about the disk: not logged)
        log_conn(&mut out, sid, &server, &reqs, json!({"diskFull": true, "pingpong": sched == Schedule::PingPong}), &recs, &cr, false, true, ended, files);
    }
    out.finish();
}
