//! C19.  `logwriter-run` starts real `LogFileWriter` threads in private directories
//! (configurations x event streams x files left by earlier runs x graceful restarts),
//! sends events carrying sequence numbers in batches, waits until the last line of a batch is
//! on disk (the append is the last step of a loop iteration, so the directory is then stable)
//! and logs the directory.  `fileset-ops` drives `PrefixFileSet` directly on real files whose
//! mtimes are set to synthetic instants.
//!
//! The harness projects lexically only: per file its length, the number of lines, the first
//! and last sequence number found, whether every line is whole and whether the numbers inside
//! the file are consecutive.  What the directory *should* be is computed by TLC from
//! LogFiles.tla.
use crate::common::*;
use rand::prelude::*;
use serde_json::{json, Value};
use servlin::log::internal::{LogEvent, PrefixFile, PrefixFileSet};
use servlin::log::{tag, Level, LogFileWriter};
use std::collections::HashMap;
use std::io::{Read, Seek, SeekFrom};
use std::path::{Path, PathBuf};
use std::sync::mpsc::SyncSender;
use std::time::{Duration, Instant, SystemTime, UNIX_EPOCH};

type Events = Vec<(String, Value)>;

fn set_mtime(path: &Path, t: SystemTime) {
    let d = t.duration_since(UNIX_EPOCH).unwrap();
    let ts = libc::timespec { tv_sec: d.as_secs() as libc::time_t, tv_nsec: d.subsec_nanos() as _ };
    let times = [ts, ts];
    let c = std::ffi::CString::new(path.to_str().unwrap()).unwrap();
    let rc = unsafe { libc::utimensat(libc::AT_FDCWD, c.as_ptr(), times.as_ptr(), 0) };
    assert_eq!(rc, 0, "utimensat {path:?}");
}

#[derive(Clone, Debug)]
struct Parsed {
    len: u64,
    lines: u64,
    first: u64,
    last: u64,
    whole: bool,
    contig: bool,
    last_time: u128,
    /// the file does not end with a newline: its last line was cut (a writer killed in the middle of a write)
    torn: bool,
}

fn find_num(line: &[u8], key: &[u8]) -> Option<u128> {
    let p = line.windows(key.len()).rposition(|w| w == key)?;
    let mut v: u128 = 0;
    let mut any = false;
    for b in &line[p + key.len()..] {
        if b.is_ascii_digit() {
            v = v * 10 + u128::from(b - b'0');
            any = true;
        } else {
            break;
        }
    }
    any.then_some(v)
}

fn parse_file(path: &Path) -> Option<Parsed> {
    let data = std::fs::read(path).ok()?;
    let mut p = Parsed { len: data.len() as u64, lines: 0, first: 0, last: 0, whole: true, contig: true, last_time: 0, torn: false };
    let complete = data.iter().rposition(|b| *b == b'\n').map_or(0, |i| i + 1);
    if complete < data.len() {
        p.whole = false;
        p.torn = true; // only the complete lines are looked at below
    }
    for line in data[..complete].split(|b| *b == b'\n') {
        if line.is_empty() {
            continue;
        }
        p.lines += 1;
        if line[0] != b'{' || *line.last().unwrap() != b'}' {
            p.whole = false;
        }
        // a file's rank is the time of its last line: the harness's own stamp ("wall") where the line has one -- an event
        // may carry any time of its own --, else the line's time (the writer's start lines)
        if let Some(t) = find_num(line, b"\"wall\":").or_else(|| find_num(line, b"\"time_ns\":")) {
            p.last_time = t;
        }
        if find_num(line, b"\"time_ns\":").is_none() {
            p.whole = false;
        }
        if let Some(n) = find_num(line, b"\"seq\":") {
            let n = n as u64;
            if p.first == 0 {
                p.first = n;
            } else if n != p.last + 1 {
                p.contig = false;
            }
            p.last = n;
        }
    }
    Some(p)
}

/// The last sequence number in the tail of a file (cheap poll).
fn tail_seq(path: &Path) -> Option<u64> {
    let mut f = std::fs::File::open(path).ok()?;
    let len = f.metadata().ok()?.len();
    let back = len.min(160);
    f.seek(SeekFrom::Start(len - back)).ok()?;
    let mut buf = Vec::new();
    f.read_to_end(&mut buf).ok()?;
    if buf.last() != Some(&b'\n') {
        return None;
    }
    find_num(&buf, b"\"seq\":").map(|n| n as u64)
}

struct Dir {
    dir: PathBuf,
    prefix_name: String,
    foreign: HashMap<String, u128>, // name -> rank
    cache: HashMap<String, (Parsed, SystemTime)>, // keyed by name; valid while length and mtime are unchanged
    decoys: Vec<PathBuf>,
    fresh_foreign: Vec<String>, // left behind since the last start
}
impl Dir {
    fn names(&self) -> Vec<String> {
        let mut v = vec![];
        if let Ok(rd) = std::fs::read_dir(&self.dir) {
            for e in rd.flatten() {
                let name = e.file_name().to_string_lossy().to_string();
                if name.starts_with(&self.prefix_name) && e.path().is_file() {
                    v.push(name);
                }
            }
        }
        v.sort();
        v
    }
    /// (name, rank, description) of every file with the prefix.  Files vanishing between
    /// `read_dir` and the read are skipped (the writer may be deleting while we poll).
    fn listing(&mut self) -> Vec<(String, u128, Value, SystemTime)> {
        let mut v = vec![];
        for name in self.names() {
            let path = self.dir.join(&name);
            let Ok(md) = std::fs::metadata(&path) else { continue };
            let mtime = md.modified().unwrap();
            if let Some(rank) = self.foreign.get(&name) {
                v.push((name.clone(), *rank, json!({"len":md.len(),"own":false,"lines":0,"first":0,"last":0,"whole":true,"contig":true,"torn":false}), mtime));
                continue;
            }
            let p = match self.cache.get(&name) {
                Some((p, mt)) if p.len == md.len() && *mt == mtime => p.clone(),
                _ => {
                    let Some(p) = parse_file(&path) else { continue };
                    self.cache.insert(name.clone(), (p.clone(), mtime));
                    p
                }
            };
            v.push((name.clone(), p.last_time, json!({"len":p.len,"own":true,"lines":p.lines,"first":p.first,"last":p.last,"whole":p.whole,"contig":p.contig,"torn":p.torn}), mtime));
        }
        v.sort_by_key(|x| x.1);
        v
    }
    fn files_json(&mut self) -> Value {
        Value::Array(self.listing().into_iter().map(|x| x.2).collect())
    }
    fn decoys_ok(&self) -> bool {
        self.decoys.iter().all(|p| p.exists())
    }
}

/// An event whose own time is not the time at which it is written: an `Error` is logged with the time it was created,
/// `log(time, ..)` takes any time.  The writer's rotation and retention go by the clock, never by what an event says.
/// (A `LogEvent` with a chosen time can only be made by the logging path: a capture logger is installed once.)
fn dated_event(time: SystemTime, tags: Vec<servlin::log::internal::Tag>) -> Option<LogEvent> {
    use std::sync::{Mutex, OnceLock};
    static CAP: OnceLock<Option<Mutex<std::sync::mpsc::Receiver<LogEvent>>>> = OnceLock::new();
    let cap = CAP.get_or_init(|| {
        let (s, r) = std::sync::mpsc::sync_channel::<LogEvent>(4);
        match servlin::log::set_global_logger(s) {
            Ok(guard) => {
                std::mem::forget(guard);
                Some(Mutex::new(r))
            }
            Err(_) => None,
        }
    });
    let rx = cap.as_ref()?.lock().unwrap();
    servlin::log::internal::log(time, Level::Info, tags).ok()?;
    rx.recv_timeout(Duration::from_secs(2)).ok()
}

fn make_event(seq: u64, pad: usize) -> (LogEvent, u64) {
    let wall = SystemTime::now().duration_since(SystemTime::UNIX_EPOCH).unwrap().as_nanos() as u64;
    let tags = vec![tag("pad", "x".repeat(pad)), tag("seq", seq), tag("wall", wall)];
    let dated = match seq % 13 {
        3 => dated_event(SystemTime::now() - Duration::from_secs(25 * 365 * 86400), tags.clone()),
        8 => dated_event(SystemTime::now() + Duration::from_secs(3 * 86400), tags.clone()),
        _ => None,
    };
    let ev = dated.unwrap_or_else(|| LogEvent::new(Level::Info, tags));
    let mut b = Vec::new();
    ev.write_jsonl(&mut b).unwrap();
    (ev, b.len() as u64)
}

fn event_pad(r: &mut StdRng, big_bias: bool) -> usize {
    match r.gen_range(0..100) {
        0..=64 => r.gen_range(0..400),
        65..=84 => r.gen_range(400..8000),
        85..=94 => r.gen_range(8000..30000),
        _ => {
            if big_bias {
                r.gen_range(55000..61300)
            } else {
                r.gen_range(30000..61300)
            }
        }
    }
}

struct Scenario {
    w: u64,
    k: u64,
    keep_age: u64,      // seconds, 0 = none
    write_age_ms: u64,  // milliseconds
    nevents: u64,
    restarts: usize,
    age_mode: bool,
}

fn ms(t0: Instant) -> u64 {
    t0.elapsed().as_millis() as u64
}

fn start_writer(sc: &Scenario, prefix: &Path) -> Result<SyncSender<LogEvent>, String> {
    let w = LogFileWriter {
        max_keep_age: if sc.keep_age > 0 { Some(Duration::from_secs(sc.keep_age)) } else { None },
        max_keep_bytes: sc.k,
        max_write_age: Duration::from_millis(sc.write_age_ms),
        max_write_bytes: sc.w,
        path_prefix: prefix.to_path_buf(),
    };
    match catch(|| w.start_writer_thread()) {
        Ok(Ok(s)) => Ok(s),
        Ok(Err(e)) => Err(format!("{e:?}").chars().take(200).collect()),
        Err(()) => Err("panic".into()),
    }
}

fn add_foreign(d: &mut Dir, r: &mut StdRng, sc: &Scenario, idx: usize, newest_rank: u128) {
    let names = ["", ".old", "x", ".2020T000000Z-0", "-extra"];
    let name = format!("{}{}{}", d.prefix_name, names[idx % names.len()], idx);
    let len: u64 = match r.gen_range(0..6) {
        0 => 0,
        1 => r.gen_range(1..200),
        2 => sc.w / 2,
        3 => sc.w,
        4 => sc.w + sc.w / 2,
        _ => r.gen_range(1..sc.w * 2),
    };
    std::fs::write(d.dir.join(&name), vec![b'#'; len as usize]).unwrap();
    // ancient (rank below every own file) or newer than everything that exists now
    let rank = if r.gen_bool(0.75) { idx as u128 + 1 } else { newest_rank + 1 + idx as u128 };
    d.fresh_foreign.push(name.clone());
    d.foreign.insert(name, rank);
}

/// Orders the directory by rank and makes sure the mtimes agree with that order: strictly
/// increasing, old / fresh classes at least 30 s away from the keep age.  Returns the listing
/// with each file's age in whole seconds.
fn stamp(d: &mut Dir, r: &mut StdRng, sc: &Scenario, tie: bool) -> (Vec<Value>, bool) {
    let list = d.listing();
    if tie {
        // every file gets the SAME mtime: what a coarse file-system clock (4 ms on this kernel) does to files that were
        // written in quick succession
        let t = SystemTime::now() - Duration::from_secs(5);
        let mut out = vec![];
        for (name, _, mut desc, _) in list {
            set_mtime(&d.dir.join(&name), t);
            let m = desc.as_object_mut().unwrap();
            m.insert("ageS".into(), json!(5));
            m.insert("new".into(), json!(false));
            out.push(desc);
        }
        d.fresh_foreign.clear();
        return (out, true);
    }
    let now = SystemTime::now();
    let n = list.len();
    let ancient = |rank: u128| rank < 1_000_000;
    let real_ok = list.windows(2).all(|w| w[0].3 < w[1].3)
        && list.iter().all(|x| {
            let age = now.duration_since(x.3).map_or(0, |d| d.as_secs());
            if sc.keep_age > 0 && ancient(x.1) { age > sc.keep_age + 60 } else { age + 60 < sc.keep_age.max(3600) }
        });
    let restamp = !(real_ok && r.gen_bool(0.5));
    let mut out = vec![];
    for (i, (name, rank, desc, mtime)) in list.into_iter().enumerate() {
        let age = if restamp {
            let base = ((n - i) as u64) * 2 + 2;
            let a = if ancient(rank) && sc.keep_age > 0 && r.gen_bool(0.8) { sc.keep_age + 3600 + base } else { base };
            a
        } else {
            now.duration_since(mtime).map_or(0, |d| d.as_secs())
        };
        out.push((name, desc, age));
    }
    if restamp {
        // ages must be non-increasing along the order: ancient files come first, and their ages are larger
        let mut prev = u64::MAX;
        for x in out.iter_mut() {
            if x.2 >= prev {
                x.2 = prev - 1;
            }
            prev = x.2;
        }
        for (name, _, age) in &out {
            set_mtime(&d.dir.join(name), now - Duration::from_secs(*age) - Duration::from_millis(500));
        }
    }
    let fresh = std::mem::take(&mut d.fresh_foreign);
    (
        out.into_iter()
            .map(|(name, mut desc, age)| {
                let m = desc.as_object_mut().unwrap();
                m.insert("ageS".into(), json!(age));
                m.insert("new".into(), json!(fresh.contains(&name)));
                desc
            })
            .collect(),
        restamp,
    )
}

fn run_scenario(sid: u64, seed: u64, thorough: bool, root: &Path) -> Events {
    let mut r = StdRng::seed_from_u64(seed.wrapping_mul(1_000_003).wrapping_add(sid));
    let mut evs: Events = vec![("Reset".into(), json!({}))];
    let t_origin = Instant::now();
    let w = *[65536u64, 65536, 131_072, 1_048_576].choose(&mut r).unwrap();
    let ratio = *[2u64, 4, 7, 20].choose(&mut r).unwrap(); // halves: 1x, 2x, 3.5x, 10x
    let age_mode = sid % 9 == 0;
    // "ties": a first run writes one big event per file in quick succession; before the restart every file gets the same
    // mtime and the keep size is lowered, so that the start-up trim has to choose among files it cannot order
    let tie_mode = !age_mode && sid % 11 == 5;
    let mut sc = Scenario {
        w,
        k: w * ratio / 2,
        keep_age: if r.gen_bool(0.5) { 3600 } else { 0 },
        write_age_ms: if age_mode { 1000 } else { 86_400_000 },
        nevents: if age_mode {
            r.gen_range(4..9)
        } else if thorough && sid % 10 == 1 {
            20_000
        } else if w >= 1_000_000 {
            r.gen_range(300..2000)
        } else {
            r.gen_range(100..1200)
        },
        restarts: if age_mode { 0 } else { r.gen_range(0..4) },
        age_mode,
    };
    if tie_mode {
        sc = Scenario { w: 65536, k: 655_360, keep_age: 0, write_age_ms: 86_400_000, nevents: 24, restarts: 1, age_mode: false };
    }
    let dir = root.join(format!("lw_{sid}"));
    let _ = std::fs::remove_dir_all(&dir);
    std::fs::create_dir_all(&dir).unwrap();
    let mut d = Dir { dir: dir.clone(), prefix_name: "app.log".into(), foreign: HashMap::new(), cache: HashMap::new(), decoys: vec![], fresh_foreign: vec![] };
    for name in ["app.lo", "zapp.log", "other.txt"] {
        std::fs::write(dir.join(name), b"decoy").unwrap();
        d.decoys.push(dir.join(name));
    }
    std::fs::create_dir_all(dir.join("app.log.dir")).unwrap();
    d.decoys.push(dir.join("app.log.dir"));
    let prefix = dir.join("app.log");
    let nforeign = if tie_mode { 0 } else { r.gen_range(0..6) };
    for i in 0..nforeign {
        add_foreign(&mut d, &mut r, &sc, i, 0);
    }
    let big_bias = r.gen_bool(0.3);
    // restart points
    let mut restart_at: Vec<u64> = if tie_mode { vec![14] } else { (0..sc.restarts).map(|_| r.gen_range(0..=sc.nevents)).collect() };
    restart_at.sort_unstable();
    let mut seq: u64 = 0;
    let mut nforeign_total = nforeign;
    'run: loop {
        // ---- (re)start
        let tie_now = tie_mode && seq > 0;
        if tie_now {
            sc.k = sc.w * *[4u64, 7].choose(&mut r).unwrap() / 2; // the operator lowers the keep size: 2x or 3.5x
        }
        let (listing, restamped) = stamp(&mut d, &mut r, &sc, tie_now);
        let before: Vec<String> = d.names();
        let t0 = ms(t_origin);
        let res = start_writer(&sc, &prefix);
        let t1 = ms(t_origin);
        let new_names: Vec<String> = d.names().into_iter().filter(|n| !before.contains(n)).collect();
        // the file this start created is the one holding the most recent line (its name may be one that a file
        // deleted by the start-up trim carried a moment ago, so "a name that was not there before" does not find it)
        let start_len = d
            .listing()
            .iter()
            .rev()
            .find(|x| x.2["own"] == true)
            .and_then(|x| x.2["len"].as_u64())
            .unwrap_or(0);
        let files = d.files_json();
        evs.push((
            "Start".into(),
            json!({"w":sc.w,"k":sc.k,"keepAge":sc.keep_age,"writeAgeMs":sc.write_age_ms,"dir":listing,"restamped":restamped,
                   "ok":res.is_ok(),"err":res.as_ref().err().cloned().unwrap_or_default(),"startLen":start_len,"files":files,
                   "t0":t0,"t1":t1,"decoysOk":d.decoys_ok(),"created":new_names.len(),"afterCrash":false,"seq0":0,"ties":tie_now}),
        ));
        let Ok(sender) = res else { break 'run };
        // ---- batches until the next restart point or the end
        let until = restart_at.first().copied().unwrap_or(sc.nevents).min(sc.nevents);
        while seq < until {
            let nb = if sc.age_mode { 1 } else { r.gen_range(1..=60).min(until - seq) };
            if sc.age_mode && r.gen_bool(0.5) {
                std::thread::sleep(Duration::from_millis(1300));
            }
            let mut sizes = vec![];
            let mut send_ok = true;
            let t0 = ms(t_origin);
            for _ in 0..nb {
                seq += 1;
                let pad = if tie_mode { r.gen_range(52_000..60_000) } else { event_pad(&mut r, big_bias) };
                let (ev, size) = make_event(seq, pad);
                sizes.push(size);
                if sender.send(ev).is_err() {
                    send_ok = false;
                }
            }
            // wait (eventually-observation, generous deadline) for the last line of the batch
            let deadline = Instant::now() + Duration::from_secs(15);
            let mut seen = false;
            while Instant::now() < deadline {
                if d.names().iter().filter(|n| !d.foreign.contains_key(*n)).any(|n| tail_seq(&dir.join(n)) == Some(seq)) {
                    seen = true;
                    break;
                }
                if !send_ok {
                    break;
                }
                std::thread::sleep(Duration::from_micros(300));
            }
            let t1 = ms(t_origin);
            let files = d.files_json();
            evs.push((
                "Batch".into(),
                json!({"sizes":sizes,"upto":seq,"seen":seen,"sendOk":send_ok,"files":files,"t0":t0,"t1":t1,
                       "writeAgeMs":sc.write_age_ms,"decoysOk":d.decoys_ok()}),
            ));
            if !seen {
                break 'run;
            }
        }
        drop(sender);
        evs.push(("Stop".into(), json!({})));
        if restart_at.is_empty() {
            break;
        }
        restart_at.remove(0);
        // something else may leave a file with the prefix while the writer is down
        if !tie_mode && r.gen_bool(0.3) {
            let newest = d.listing().last().map_or(0, |x| x.1);
            add_foreign(&mut d, &mut r, &sc, nforeign_total, newest);
            nforeign_total += 1;
        }
    }
    if sc.keep_age > 0 && t_origin.elapsed() > Duration::from_secs(25) {
        // the old / fresh classification of file ages assumed a short run
        evs.insert(1, ("Inconclusive".into(), json!({"elapsedMs": ms(t_origin)})));
    }
    let _ = std::fs::remove_dir_all(&dir);
    evs
}

pub fn run_writer(args: &Args, mut out: Out) {
    let n = args.u64("n", 40);
    let thorough = args.u64("thorough", 0) == 1;
    let seed = args.seed();
    let root = std::env::current_dir().unwrap().join("lw_dirs");
    std::fs::create_dir_all(&root).unwrap();
    let threads = args.usize("threads", 8);
    let only = args.opt("only-sid").map(|s| s.parse::<u64>().unwrap());
    let root2 = root.clone();
    let results = parallel(threads, move |t| {
        let mut v = vec![];
        let mut sid = t as u64 + 1;
        while sid <= n {
            if only.map_or(true, |o| o == sid) {
                v.push((sid, run_scenario(sid, seed, thorough, &root2)));
            }
            sid += threads as u64;
        }
        v
    });
    let mut all: Vec<(u64, Events)> = results.into_iter().flatten().collect();
    all.sort_by_key(|x| x.0);
    for (sid, evs) in all {
        for (name, v) in evs {
            out.ev(sid, &name, v);
        }
    }
    let _ = std::fs::remove_dir_all(&root);
    out.finish();
}

// ------------------------------------------------------------------------------ logwriter-crash
/// Child process of `logwriter-crash`: starts a writer and sends events as fast as it can until it is killed.
pub fn run_child(args: &Args) {
    let dir = PathBuf::from(args.str("dir", "."));
    let sc = Scenario { w: args.u64("w", 65536), k: args.u64("k", 65536), keep_age: 0, write_age_ms: 86_400_000, nevents: 0, restarts: 0, age_mode: false };
    let mut r = StdRng::seed_from_u64(args.seed());
    let mut seq = args.u64("first", 1);
    let sender = start_writer(&sc, &dir.join("app.log")).unwrap();
    loop {
        let (ev, _) = make_event(seq, event_pad(&mut r, false));
        if sender.send(ev).is_err() {
            std::process::exit(3);
        }
        seq += 1;
    }
}

/// C19, crash points: the writer runs in a child process that is killed (SIGKILL) at a random instant, one to three
/// times in a row; after each kill the directory is logged; then a writer is started in this process on the same
/// directory and the run continues as in `logwriter-run`.
pub fn run_crash(args: &Args, mut out: Out) {
    let n = args.u64("n", 12);
    let seed = args.seed();
    let root = std::env::current_dir().unwrap().join("lwc_dirs");
    std::fs::create_dir_all(&root).unwrap();
    let exe = std::env::current_exe().unwrap();
    for sid in 1..=n {
        if !out.wants(sid) {
            continue;
        }
        let mut r = StdRng::seed_from_u64(seed.wrapping_mul(7_000_003).wrapping_add(sid));
        let t_origin = Instant::now();
        let w = 65536u64;
        let sc = Scenario { w, k: w * *[2u64, 4, 7].choose(&mut r).unwrap() / 2, keep_age: 0, write_age_ms: 86_400_000, nevents: r.gen_range(30..200), restarts: 0, age_mode: false };
        let dir = root.join(format!("lwc_{sid}"));
        let _ = std::fs::remove_dir_all(&dir);
        std::fs::create_dir_all(&dir).unwrap();
        let mut d = Dir { dir: dir.clone(), prefix_name: "app.log".into(), foreign: HashMap::new(), cache: HashMap::new(), decoys: vec![], fresh_foreign: vec![] };
        out.ev(sid, "Reset", json!({}));
        let mut next_seq = 1u64;
        for _ in 0..r.gen_range(1..=3) {
            let mut child = std::process::Command::new(&exe)
                .args(["logwriter-child", "--out", "/dev/null", "--dir", dir.to_str().unwrap(), "--w", &sc.w.to_string(), "--k", &sc.k.to_string(),
                       "--first", &next_seq.to_string(), "--seed", &r.gen::<u32>().to_string()])
                .stdout(std::process::Stdio::null())
                .stderr(std::process::Stdio::null())
                .spawn()
                .unwrap();
            std::thread::sleep(Duration::from_micros(r.gen_range(3_000..250_000)));
            let _ = child.kill();
            let _ = child.wait();
            let listing = d.listing();
            let max_seq = listing.iter().filter_map(|x| x.2["last"].as_u64()).max().unwrap_or(0).max(next_seq - 1);
            out.ev(sid, "Crash", json!({"w":sc.w,"k":sc.k,"maxEvent":61_500,"files":listing.iter().map(|x| x.2.clone()).collect::<Vec<_>>(),"first":next_seq,"maxSeq":max_seq}));
            next_seq = max_seq + 1;
        }
        // ---- a writer in this process on the same directory
        let (listing, restamped) = stamp(&mut d, &mut r, &sc, false);
        let t0 = ms(t_origin);
        let res = start_writer(&sc, &dir.join("app.log"));
        let t1 = ms(t_origin);
        let start_len = d.listing().iter().rev().find(|x| x.2["own"] == true).and_then(|x| x.2["len"].as_u64()).unwrap_or(0);
        let files = d.files_json();
        out.ev(sid, "Start", json!({"w":sc.w,"k":sc.k,"keepAge":0,"writeAgeMs":sc.write_age_ms,"dir":listing,"restamped":restamped,
                                    "ok":res.is_ok(),"err":res.as_ref().err().cloned().unwrap_or_default(),"startLen":start_len,"files":files,
                                    "t0":t0,"t1":t1,"decoysOk":true,"created":1,"afterCrash":true,"seq0":next_seq - 1,"ties":false}));
        let Ok(sender) = res else { continue };
        let mut seq = next_seq - 1;
        let until = seq + sc.nevents;
        while seq < until {
            let nb = r.gen_range(1..=40).min(until - seq);
            let mut sizes = vec![];
            let t0 = ms(t_origin);
            let mut send_ok = true;
            for _ in 0..nb {
                seq += 1;
                let (ev, size) = make_event(seq, event_pad(&mut r, false));
                sizes.push(size);
                if sender.send(ev).is_err() {
                    send_ok = false;
                }
            }
            let deadline = Instant::now() + Duration::from_secs(15);
            let mut seen = false;
            while Instant::now() < deadline {
                if d.names().iter().any(|n| tail_seq(&dir.join(n)) == Some(seq)) {
                    seen = true;
                    break;
                }
                if !send_ok {
                    break;
                }
                std::thread::sleep(Duration::from_micros(300));
            }
            let t1 = ms(t_origin);
            let files = d.files_json();
            out.ev(sid, "Batch", json!({"sizes":sizes,"upto":seq,"seen":seen,"sendOk":send_ok,"files":files,"t0":t0,"t1":t1,
                                        "writeAgeMs":sc.write_age_ms,"decoysOk":true}));
            if !seen {
                break;
            }
        }
        drop(sender);
        out.ev(sid, "Stop", json!({}));
        let _ = std::fs::remove_dir_all(&dir);
    }
    let _ = std::fs::remove_dir_all(&root);
    out.finish();
}

// ------------------------------------------------------------------------------ fileset-ops
fn fs_listing(dir: &Path, prefix_name: &str) -> Value {
    let mut v = vec![];
    if let Ok(rd) = std::fs::read_dir(dir) {
        for e in rd.flatten() {
            let name = e.file_name().to_string_lossy().to_string();
            if name.starts_with(prefix_name) && e.path().is_file() {
                let len = e.metadata().map_or(0, |m| m.len());
                v.push(json!({"len":len,"own":false,"lines":0,"first":0,"last":0}));
            }
        }
    }
    Value::Array(v)
}

pub fn run_fileset(args: &Args, mut out: Out) {
    let n = args.u64("n", 300);
    let mut r = args.rng();
    let root = std::env::current_dir().unwrap().join("fs_dirs");
    let origin = SystemTime::now() - Duration::from_secs(200_000);
    let at = |age: i64| if age >= 0 { origin - Duration::from_secs(age as u64) } else { origin + Duration::from_secs((-age) as u64) };
    for sid in 1..=n {
        let dir = root.join(format!("fs_{sid}"));
        let _ = std::fs::remove_dir_all(&dir);
        std::fs::create_dir_all(&dir).unwrap();
        for decoy in ["fs.lo", "zfs.log"] {
            std::fs::write(dir.join(decoy), b"decoy").unwrap();
        }
        let prefix = dir.join("fs.log");
        out.ev(sid, "Reset", json!({}));
        // the builder: every setting ends up in its own field, unset ones keep the documented defaults, and values
        // below the documented minimum are refused (-1 = the method is not called)
        {
            let pick = |r: &mut StdRng, min: i64| -> i64 {
                match r.gen_range(0..6) {
                    0 => -1,
                    1 => min,
                    2 => min - 1,
                    3 => min + 1,
                    4 => r.gen_range(0..min),
                    _ => r.gen_range(min..2_000_000_000),
                }
            };
            let keep: i64 = r.gen_range(0..2_000_000_000);
            let (wb, wa, ka) = (pick(&mut r, 65_536), pick(&mut r, 1), pick(&mut r, 60));
            let prefix2 = prefix.clone();
            let built = catch(move || {
                let mut b = LogFileWriter::new_builder(prefix2, keep as u64);
                if wb >= 0 {
                    b = b.with_max_write_bytes(wb as u64);
                }
                if wa >= 0 {
                    b = b.with_max_write_age(Duration::from_secs(wa as u64));
                }
                if ka >= 0 {
                    b = b.with_max_keep_age(Duration::from_secs(ka as u64));
                }
                b
            });
            let got = match &built {
                Ok(b) => json!({"panic": false, "keepBytes": b.max_keep_bytes, "writeBytes": b.max_write_bytes,
                                "writeAgeS": b.max_write_age.as_secs(), "writeAgeNs": b.max_write_age.subsec_nanos(),
                                "keepAgeS": b.max_keep_age.map_or(-1, |d| d.as_secs() as i64),
                                "prefixSame": b.path_prefix == prefix}),
                Err(()) => json!({"panic": true, "keepBytes": 0, "writeBytes": 0, "writeAgeS": 0, "writeAgeNs": 0, "keepAgeS": -1, "prefixSame": true}),
            };
            out.ev(sid, "Config", json!({"args": {"keepBytes": keep, "writeBytes": wb, "writeAgeS": wa, "keepAgeS": ka}, "got": got}));
        }
        // distinct ages and distinct lengths, so that every deletion is identifiable
        let mut ages: Vec<i64> = (-50..150).collect();
        ages.shuffle(&mut r);
        let mut lens: Vec<u64> = (1..400).collect();
        lens.shuffle(&mut r);
        let npre = r.gen_range(0..7);
        let mut pre: Vec<(i64, u64)> = vec![];
        for i in 0..npre {
            let (age, len) = (ages.pop().unwrap(), lens.pop().unwrap());
            let suffix = ["", ".a", "x", "-1", ".2024"][i % 5];
            let p = dir.join(format!("fs.log{suffix}{i}"));
            std::fs::write(&p, vec![b'#'; len as usize]).unwrap();
            set_mtime(&p, at(age));
            pre.push((age, len));
        }
        pre.sort_by_key(|x| -x.0); // oldest first
        let listing: Vec<Value> = pre.iter().map(|(age, len)| json!({"len":len,"own":false,"lines":0,"first":0,"last":0,"ageS":age})).collect();
        let set = catch(|| PrefixFileSet::new(&prefix));
        let (mut set, err, panic) = match set {
            Ok(Ok(s)) => (Some(s), false, false),
            Ok(Err(_)) => (None, true, false),
            Err(()) => (None, false, true),
        };
        out.ev(sid, "FsNew", json!({"dir":listing,"files":fs_listing(&dir, "fs.log"),"err":err,"panic":panic}));
        let Some(set_ref) = set.as_mut() else { continue };
        let mut npush = 0;
        for _ in 0..r.gen_range(3..14) {
            match r.gen_range(0..10) {
                0..=2 => {
                    let (age, len) = (ages.pop().unwrap(), lens.pop().unwrap());
                    let p = dir.join(format!("fs.log.p{npush}"));
                    npush += 1;
                    std::fs::write(&p, vec![b'#'; len as usize]).unwrap();
                    set_mtime(&p, at(age));
                    let res = catch(|| set_ref.push(PrefixFile { path: p.clone(), mtime: at(age), len }));
                    out.ev(sid, "FsPush", json!({"len":len,"setLen":len,"ageS":age,"files":fs_listing(&dir, "fs.log"),"err":false,"panic":res.is_err()}));
                }
                3 => {
                    let res = catch(|| set_ref.delete_oldest());
                    out.ev(sid, "FsDeleteOldest", json!({"files":fs_listing(&dir, "fs.log"),"err":matches!(res, Ok(Err(_))),"panic":res.is_err()}));
                    if res.is_err() {
                        break;
                    }
                }
                4..=6 => {
                    let now_age: i64 = r.gen_range(-60..120);
                    let dur: u64 = r.gen_range(0..120);
                    let res = catch(|| set_ref.delete_older_than(at(now_age), Duration::from_secs(dur)));
                    out.ev(sid, "FsDeleteOlderThan", json!({"nowAgeS":now_age,"durS":dur,"files":fs_listing(&dir, "fs.log"),"err":matches!(res, Ok(Err(_))),"panic":res.is_err()}));
                    if res.is_err() {
                        break;
                    }
                }
                _ => {
                    let max: u64 = r.gen_range(0..1500);
                    let res = catch(|| set_ref.delete_oldest_while_over_max_len(max));
                    out.ev(sid, "FsTrimTo", json!({"max":max,"files":fs_listing(&dir, "fs.log"),"err":matches!(res, Ok(Err(_))),"panic":res.is_err()}));
                    if res.is_err() {
                        break;
                    }
                }
            }
        }
        let _ = std::fs::remove_dir_all(&dir);
    }
    let _ = std::fs::remove_dir_all(&root);
    out.finish();
}
