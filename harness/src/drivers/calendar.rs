//! C16: `date-sweep` calls `DateTime::new` for every day boundary 1970-01-01..=9999-12-31 x
//! seven seconds-of-day (plus every second of selected days), renders sampled instants
//! through the three users of the conversion (iso8601_utc, cookie Expires, the log line's
//! `time` member), and adds durations to start dates at month granularity.
//! The sweep is run-length encoded losslessly: `Month{first, y, m, n}` means "days
//! first..first+n-1 were rendered as y-m-01..y-m-n with the expected times"; a run is only
//! extended when the code's own successive outputs continue it, anything else is logged day
//! by day.  All calendar knowledge stays in the specification.
use crate::common::*;
use rand::prelude::*;
use serde_json::json;
use servlin::internal::*;
use servlin::log::internal as slog;
use servlin::log::Level;
#[allow(unused_imports)]
use servlin::*;
use std::time::{Duration, SystemTime};

const SODS: [i64; 7] = [0, 1, 59, 60, 3599, 3600, 86399];
const LAST_DAY: i64 = 2_932_896;

#[derive(Clone, Copy, PartialEq)]
struct DayRec {
    y: i64,
    m: i64,
    d: i64,
    uniform: bool,
    times: [[i64; 4]; 7],
}

fn day_rec(d: i64) -> Option<DayRec> {
    catch(|| {
        let mut times = [[0i64; 4]; 7];
        let mut ymd = None;
        let mut uniform = true;
        for (k, sod) in SODS.iter().enumerate() {
            let dt = DateTime::new(d * 86400 + sod);
            times[k] = [*sod, dt.hour, dt.min, dt.sec];
            match ymd {
                None => ymd = Some((dt.year, dt.month, dt.day)),
                Some(x) => {
                    if x != (dt.year, dt.month, dt.day) {
                        uniform = false;
                    }
                }
            }
        }
        let (y, m, dd) = ymd.unwrap();
        DayRec { y, m, d: dd, uniform, times }
    })
    .ok()
}

pub fn run_sweep(args: &Args, mut out: Out) {
    let last_day = args.u64("last-day", LAST_DAY as u64) as i64;
    let nadd = args.usize("adds", 1);
    let mut r = args.rng();
    let threads = 14usize;
    let per = (last_day as usize + threads) / threads;
    let parts = parallel(threads, move |t| {
        let lo = (t * per) as i64;
        let hi = ((t + 1) * per) as i64 - 1;
        (lo..=hi.min(last_day)).map(day_rec).collect::<Vec<_>>()
    });
    let mut sid = 1u64;
    out.ev(sid, "Reset", json!({"next": 0}));
    let mut run: Option<(i64, DayRec, i64)> = None; // first day index, first record, n
    let mut d = 0i64;
    let mut months_in_chunk = 0;
    for part in parts {
        for rec in part {
            let Some(rec) = rec else {
                if let Some((first, fr, n)) = run.take() {
                    out.ev(sid, "Month", json!({"first":first,"y":fr.y,"m":fr.m,"n":n,"times":fr.times}));
                }
                out.ev(sid, "Day", json!({"d":d,"panic":true}));
                d += 1;
                continue;
            };
            let extend = rec.uniform
                && matches!(&run, Some((_, fr, n)) if fr.y == rec.y && fr.m == rec.m && rec.d == *n + 1 && fr.times == rec.times);
            if extend {
                run.as_mut().unwrap().2 += 1;
            } else {
                if let Some((first, fr, n)) = run.take() {
                    out.ev(sid, "Month", json!({"first":first,"y":fr.y,"m":fr.m,"n":n,"times":fr.times}));
                    months_in_chunk += 1;
                    if months_in_chunk >= 1200 {
                        months_in_chunk = 0;
                        sid += 1;
                        out.ev(sid, "Reset", json!({"next": d}));
                    }
                }
                if rec.uniform && rec.d == 1 {
                    run = Some((d, rec, 1));
                } else {
                    out.ev(sid, "Day", json!({"d":d,"panic":false,"y":rec.y,"m":rec.m,"day":rec.d,"uniform":rec.uniform}));
                }
            }
            d += 1;
        }
    }
    if let Some((first, fr, n)) = run.take() {
        out.ev(sid, "Month", json!({"first":first,"y":fr.y,"m":fr.m,"n":n,"times":fr.times}));
    }
    out.ev(sid, "SweepEnd", json!({"days": d}));
    // ---- every second of selected days (around leap days, century and 400-year boundaries) ----
    sid += 1;
    out.ev(sid, "Reset", json!({"next": 0}));
    for day in [0i64, 58, 59, 60, 789, 11_016, 11_017, 47_540, 47_541, 47_542, 146_096, 146_097, 2_932_895, 2_932_896] {
        if day > last_day {
            continue;
        }
        let ok = catch(|| {
            let mut bad = vec![];
            let base = DateTime::new(day * 86400);
            for sod in 0..86400i64 {
                let dt = DateTime::new(day * 86400 + sod);
                if (dt.year, dt.month, dt.day) != (base.year, base.month, base.day) || dt.hour * 3600 + dt.min * 60 + dt.sec != sod || dt.min > 59 || dt.sec > 59 {
                    bad.push(sod);
                }
            }
            (base, bad)
        });
        match ok {
            Ok((base, bad)) => out.ev(sid, "WholeDay", json!({"d":day,"y":base.year,"m":base.month,"day":base.day,"badSeconds":bad.len()})),
            Err(()) => out.ev(sid, "WholeDay", json!({"d":day,"y":0,"m":0,"day":0,"badSeconds":86400})),
        }
    }
    // ---- rendered text through the three users (fixed width, zero padded) ----
    sid += 1;
    out.ev(sid, "Reset", json!({"next": 0}));
    let (sender, receiver) = std::sync::mpsc::sync_channel::<slog::LogEvent>(10);
    let guard = slog::set_global_logger(sender);
    for k in 0..3000i64 {
        let (day, sod) = if k < 40 {
            ([0, 59, 60, 11_016, 47_541, 146_097, 213_503, 2_932_896][(k % 8) as usize], [0, 86399, 3600, 43_200, 1][(k % 5) as usize])
        } else {
            (r.gen_range(0..=last_day), r.gen_range(0..86400))
        };
        if day > last_day {
            continue;
        }
        // the instant's sub-second part (none, tiny, half, and as close to the next second as a clock can report) never
        // changes the text: rendering truncates
        let nanos = [0u32, 0, 1, 500_000_000, 999_999_999, 999_999_900, 999_000_000][(k % 7) as usize];
        let t = SystemTime::UNIX_EPOCH + Duration::new((day * 86400 + sod) as u64, nanos);
        let iso = catch(|| t.iso8601_utc()).unwrap_or_else(|()| "<panic>".into());
        out.ev(sid, "Text", json!({"user":"iso8601_utc","d":day,"sod":sod,"text":cps(&iso)}));
        let cookie = catch(|| format!("{}", Cookie::new("a", "b".try_into().unwrap()).with_expires(t))).unwrap_or_else(|()| "<panic>".into());
        let exp = cookie.split("Expires=").nth(1).map(|s| s.split(';').next().unwrap_or("").to_string()).unwrap_or_default();
        // the Unix epoch itself means "no expiry" in the cookie API
        if day != 0 || sod != 0 {
            out.ev(sid, "Text", json!({"user":"cookie","d":day,"sod":sod,"text":cps(&exp)}));
        }
        // the log line's time member; epoch_ns is documented to panic after 2554
        if guard.is_ok() && day < 213_000 {
            let line = catch(|| {
                slog::log(t, Level::Info, Vec::<servlin::log::internal::Tag>::new()).ok();
                let ev = receiver.recv().unwrap();
                let mut v = vec![];
                ev.write_jsonl(&mut v).unwrap();
                String::from_utf8_lossy(&v).to_string()
            })
            .unwrap_or_else(|()| "<panic>".into());
            let tm = line.split("\"time\":\"").nth(1).map(|s| s.split('"').next().unwrap_or("").to_string()).unwrap_or_default();
            out.ev(sid, "Text", json!({"user":"log","d":day,"sod":sod,"text":cps(&tm)}));
        }
    }
    drop(guard);
    // ---- log file names: the stamp in the name of a file created now is the current UTC time (the only instant a file
    // name can be made for), in the same zero-padded fixed-width digits ----
    {
        let dir = std::env::current_dir().unwrap().join("fname_probe");
        let _ = std::fs::remove_dir_all(&dir);
        std::fs::create_dir_all(&dir).unwrap();
        let now_ds = || {
            let s = SystemTime::now().duration_since(SystemTime::UNIX_EPOCH).unwrap().as_secs() as i64;
            (s / 86400, s % 86400)
        };
        for k in 0..12 {
            let before = now_ds();
            let made = catch(|| servlin::log::internal::LogFile::create(&dir.join("probe.log")));
            let after = now_ds();
            let name = match made {
                Ok(Ok(f)) => f.path.file_name().map(|n| n.to_string_lossy().to_string()).unwrap_or_default(),
                Ok(Err(e)) => format!("<error {e}>"),
                Err(()) => "<panic>".to_string(),
            };
            // probe.log.YYYYMMDDTHHMMSSZ-n
            let stamp = name.strip_prefix("probe.log.").map(|r| r.split('-').next().unwrap_or("").to_string()).unwrap_or(name.clone());
            out.ev(sid, "FileName", json!({"bd":before.0,"bs":before.1,"ad":after.0,"as":after.1,"text":cps(&stamp),"k":k}));
            if k % 4 == 3 {
                std::thread::sleep(Duration::from_millis(260));
            }
        }
        let _ = std::fs::remove_dir_all(&dir);
    }
    // ---- addition: every start month 1970..=2405 x start days x durations ----
    let mut durs: Vec<(i64, i64)> = vec![(0, 0), (0, 1), (1, 0), (365, 0), (366, 0), (367, 0), (1461, 0), (36524, 0), (146_097, 0), (59, 86399), (800, 4000)];
    for _ in 0..(4 * nadd) {
        durs.push((r.gen_range(0..200_000), r.gen_range(0..86400)));
    }
    let mut tod_n = 0u64;
    for y in 1970..=2405i64 {
        if (y - 1970) % 10 == 0 {
            sid += 1;
            out.ev(sid, "Reset", json!({"next": 0}));
        }
        for m in 1..=12i64 {
            let ml = catch(|| month_len_days(y, m)).unwrap_or(28);
            for day in [1i64, 28, ml] {
                for (dd, ds) in &durs {
                    let (dd, ds) = (*dd, *ds);
                    // the start's time of day: midnight, the last second, and (two in three) any other time, so that every
                    // carry (second -> minute -> hour -> day) happens both alone and together with the others
                    tod_n += 1;
                    let (h, mi, s) = match tod_n % 6 {
                        0 => (0, 0, 0),
                        1 => (23, 59, 59),
                        2 => (23, 0, 0),
                        3 => (r.gen_range(1..24), r.gen_range(0..60), 0),
                        _ => (r.gen_range(0..24), r.gen_range(0..60), r.gen_range(0..60)),
                    };
                    let start = DateTime { year: y, month: m, day, hour: h, min: mi, sec: s };
                    let res = catch(move || {
                        let o = start + Duration::from_secs((dd * 86400 + ds) as u64);
                        [o.year, o.month, o.day, o.hour, o.min, o.sec]
                    });
                    out.ev(sid, "Add", json!({"start":[y, m, day, h, mi, s],"dd":dd,"ds":ds,"panic":res.is_err(),"out": res.map(|v| v.to_vec()).unwrap_or_default()}));
                }
            }
        }
    }
    out.finish();
}
