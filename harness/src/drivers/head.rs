//! C01 / C02: `head-gen` (grammar-derived heads and byte mutations through
//! `Head::try_read`, then the same bytes through `read_http_request` under a random
//! partition into reads and a random end-of-stream offset), `head-splits` (every
//! partition of every short input through `read_http_head::<N>`), `head-tcp` (a sample
//! of inputs through a real server: a response or EOF must arrive, no servlin panic).
use crate::common::*;
use fixed_buffer::FixedBuf;
use rand::prelude::*;
use serde_json::{json, Value};
use servlin::internal::*;
#[allow(unused_imports)]
use servlin::*;
use std::collections::BTreeSet;
use std::io::{Read, Write};

const TCHAR: &[u8] = b"!#$%&'*+-.^_`|~0123456789abcdefghijklmnopqrstuvwxyzABCDEFGHIJKLMNOPQRSTUVWXYZ";
const PCHAR: &[u8] = b"abcXYZ019-._~!$&'()*+,;=:@";

/// Bytes above 127 for the request-target: UTF-8 text of 2, 3 and 4 bytes, and sequences that are not UTF-8 (a lone lead
/// byte, a lone continuation byte, 0xFF, an overlong form, a surrogate, a code point above U+10FFFF, Latin-1 e-acute).
const HIGH: [&[u8]; 12] = [b"\xc3\xa9", b"\xe2\x82\xac", b"\xf0\x9f\x98\x80", b"\xc2\x80", b"\xef\xbf\xbd", b"\xc3", b"\xa9", b"\xff",
                           b"\xc0\xaf", b"\xed\xa0\x80", b"\xf4\x90\x80\x80", b"\xe9"];

const VERSIONS: [&[u8]; 18] = [b"HTTP/1.0", b"HTTP/1.01", b"HTTP/01.1", b"HTTP/001.1", b"HTTP/+1.1", b"HTTP/1.+1", b"HTTP/1.10", b"HTTP/1.1x",
                               b"http/1.1", b"HTTP/2", b"HTTP/2.0", b"HTTP/1,1", b"HTTP/11", b"HTTP/1.", b"HTTP/.1", b"HTTP/1.1.1", b"HTTPS/1.1",
                               b"HTTP/1.1\t"];

pub fn gen_head(r: &mut StdRng) -> Vec<u8> {
    let mut h = pick(r, TCHAR, 1, 8);
    h.push(b' ');
    h.push(b'/');
    for _ in 0..r.gen_range(0..4) {
        h.extend(pick(r, PCHAR, 0, 6));
        if r.gen_bool(0.5) {
            h.push(b'/');
        }
        if r.gen_bool(0.1) {
            h.extend(b"%4a");
        }
        if r.gen_bool(0.04) {
            h.extend(*HIGH.choose(r).unwrap());
        }
    }
    if r.gen_bool(0.4) {
        h.push(b'?');
        h.extend(pick(r, b"abc019-._~!$&()*+,;=:@/?", 0, 10));
        if r.gen_bool(0.06) {
            h.extend(*HIGH.choose(r).unwrap());
            h.extend(pick(r, b"abc=&", 0, 3));
        }
    }
    if r.gen_bool(0.06) {
        // a version that is not the literal HTTP/1.1, including the ones a numeric comparison would let through
        h.push(b' ');
        h.extend(*VERSIONS.choose(r).unwrap());
        h.extend(b"\r\n");
    } else {
        h.extend(b" HTTP/1.1\r\n");
    }
    let maxf = if r.gen_bool(0.1) { 40 } else { 4 };
    for _ in 0..r.gen_range(0..=maxf) {
        let mut name = pick(r, TCHAR, 1, 12);
        if r.gen_bool(0.02) {
            // a delimiter inside the field name: not a token, the head is rejected
            let at = r.gen_range(0..=name.len());
            name.insert(at, *b"(),/;<=>?@[\\]{}\"".choose(r).unwrap());
        }
        h.extend(name);
        h.push(b':');
        h.extend(pick(r, b" \t", 0, 2));
        let n = r.gen_range(0..20usize);
        let mut v: Vec<u8> =
            (0..n).map(|_| if r.gen_bool(0.15) { *b" \t".choose(r).unwrap() } else { r.gen_range(33..=126u8) }).collect();
        while v.first().map_or(false, |b| *b == b' ' || *b == b'\t') {
            v.remove(0);
        }
        while v.last().map_or(false, |b| *b == b' ' || *b == b'\t') {
            v.pop();
        }
        if r.gen_bool(0.03) {
            // a value made of blanks and stray CRs only (what a trimming helper is left with nothing of)
            v = (*[&b"\r"[..], b" \r", b"\r ", b"\t\r\r", b" \r \r", b"\r\t"].choose(r).unwrap()).to_vec();
        }
        h.extend(v);
        h.extend(pick(r, b" \t", 0, 2));
        h.extend(b"\r\n");
    }
    h.extend(b"\r\n");
    h
}
pub fn mutate(r: &mut StdRng, mut h: Vec<u8>) -> Vec<u8> {
    // one mutation in six goes next to a line end: a CR / LF / blank inserted just before or just after a CRLF
    if r.gen_range(0..6) == 0 {
        let ends: Vec<usize> = h.windows(2).enumerate().filter(|(_, w)| w == b"\r\n").map(|(i, _)| i).collect();
        if let Some(&i) = ends.choose(r) {
            // ... or a byte that some "trim" helper may take for white space: FF, VT, NUL, US, DEL, NEL / NBSP lead bytes
            let b = *b"\r\r\n \t\x0c\x0b\x00\x1f\x7f\x85\xa0".choose(r).unwrap();
            // before the CRLF (the end of a value), after it (the start of the next line), or after the line's colon
            let colon = h[i + 2..].iter().position(|x| *x == b':').map(|p| i + 2 + p + 1);
            let at = match r.gen_range(0..10) {
                0..=4 => i,
                5..=6 => i + 2,
                _ => colon.unwrap_or(i),
            };
            h.insert(at.min(h.len()), b);
            if r.gen_bool(0.7) {
                return h;
            }
        }
    }
    for _ in 0..r.gen_range(1..=2) {
        let pool: &[u8] = b"\r\n \t:/?%#\\\x00\x7f\x80\xff\"{a1.\x0c\x0b\x1f[]";
        let b = if r.gen_bool(0.7) { *pool.choose(r).unwrap() } else { r.gen() };
        let i = r.gen_range(0..h.len());
        match r.gen_range(0..3) {
            0 => h[i] = b,
            1 => h.insert(i, b),
            _ => {
                h.remove(i);
            }
        }
    }
    h
}
/// A head padded to land near the 8192-byte buffer size: few lines, one giant value
/// (the oracle's cost grows with the number of lines, DESIGN.md Appendix D).
fn big_head(r: &mut StdRng) -> Vec<u8> {
    let target = 8192 - 12 + r.gen_range(0..24usize);
    let mut h = b"GET /big HTTP/1.1\r\n".to_vec();
    if r.gen_bool(0.5) {
        h.extend(b"a: b\r\n");
    }
    let room = target.saturating_sub(h.len() + 4 + 5);
    h.extend(b"x: ");
    h.extend(std::iter::repeat(b'z').take(room));
    h.extend(b"\r\n\r\n");
    h
}

fn head_json(head: &Head) -> Value {
    json!({"k":"Ok","method":ints(head.method.as_bytes()),"path":ints(head.url.path().as_bytes()),
        "hasQuery": head.url.query().is_some(), "query": ints(head.url.query().unwrap_or("").as_bytes()),
        "fields": Value::Array(head.headers.iter().map(|f| json!([ints(f.name.as_bytes()), ints(f.value.as_bytes())])).collect())})
}
fn http_err_name(e: &HttpError) -> String {
    // HttpError names of the HeadError variants
    match variant_name(e).as_str() {
        "MalformedHeaderLine" => "MalformedHeader".to_string(),
        other => other.to_string(),
    }
}

pub fn run_gen(args: &Args, mut out: Out) {
    let n = args.usize("n", 1000);
    let mut r = args.rng();
    for sid in 1..=(n as u64) {
        let mut h = if sid % 50 == 0 { big_head(&mut r) } else { gen_head(&mut r) };
        if sid % 3 != 0 {
            h = mutate(&mut r, h);
        }
        let trailer = pick(&mut r, b"xyz\r\n", 0, 3);
        let mut input = h.clone();
        input.extend(&trailer);
        if input.len() > 8192 + 64 {
            input.truncate(8192 + 64);
        }
        // (a) the parser on the whole input
        let mut buf: FixedBuf<8192> = FixedBuf::new();
        let fits = input.len() <= 8192;
        let outv = if fits {
            buf.write_bytes(&input).unwrap();
            let before = buf.len();
            let res = catch(|| Head::try_read(&mut buf));
            let o = match res {
                Err(()) => json!({"k":"Panic"}),
                Ok(Err(e)) => json!({"k": format!("{e:?}")}),
                Ok(Ok(head)) => head_json(&head),
            };
            (o, before - buf.len())
        } else {
            (json!({"k":"TooBig"}), 0)
        };
        // (b) the reader under a random partition and a random end of stream
        let eof_at = if r.gen_bool(0.3) { r.gen_range(0..=input.len()) } else { input.len() };
        let data = input[..eof_at].to_vec();
        let cuts = random_cuts(&mut r, data.len());
        let mut rd = ScriptedReader::with_cuts(data.clone(), &cuts);
        rd.end_with_err = r.gen_bool(0.2);
        let mut buf2: FixedBuf<8192> = FixedBuf::new();
        let res = catch(|| poll_budget(read_http_head(&mut buf2, &mut rd), data.len() + 10));
        let split = match res {
            Err(()) => json!({"k":"Panic"}),
            Ok(None) => json!({"k":"Hang"}),
            Ok(Some(Err(e))) => json!({"k": http_err_name(&e)}),
            Ok(Some(Ok(head))) => head_json(&head),
        };
        if !out.wants(sid) {
            continue;
        }
        out.ev(sid, "Reset", json!({}));
        out.ev(
            sid,
            "TryRead",
            json!({"bytes":ints(&input),"out":outv.0,"used":outv.1,"fits":fits,
                   "eofAt":eof_at,"ncuts":cuts.len(),"split":split,"rest":buf2.len() + rd.unread(),"polls":rd.polls}),
        );
    }
    out.finish();
}

struct Outcome(String, usize, bool);
fn run_one<const N: usize>(data: &[u8], cuts: &[usize]) -> Outcome {
    let mut buf: FixedBuf<N> = FixedBuf::new();
    let mut rd = ScriptedReader::with_cuts(data.to_vec(), cuts);
    let res = catch(|| poll_budget(read_http_head(&mut buf, &mut rd), data.len() + 6));
    let k = match &res {
        Err(()) => "Panic".to_string(),
        Ok(None) => "Hang".to_string(),
        Ok(Some(Err(e))) => http_err_name(e),
        Ok(Some(Ok(_))) => "Ok".to_string(),
    };
    Outcome(k, buf.len() + rd.unread(), rd.polls > data.len() + 3)
}
fn run_n(n: usize, data: &[u8], cuts: &[usize]) -> Outcome {
    match n {
        4 => run_one::<4>(data, cuts),
        5 => run_one::<5>(data, cuts),
        6 => run_one::<6>(data, cuts),
        7 => run_one::<7>(data, cuts),
        15 => run_one::<15>(data, cuts),
        16 => run_one::<16>(data, cuts),
        17 => run_one::<17>(data, cuts),
        21 => run_one::<21>(data, cuts),
        24 => run_one::<24>(data, cuts),
        _ => run_one::<8192>(data, cuts),
    }
}

pub fn run_splits(args: &Args, mut out: Out) {
    let maxlen = args.usize("maxlen", 5);
    let extra = args.usize("extra", 0); // 1: add 0x80, 0x00, HTAB to the alphabet
    let mut alpha: Vec<u8> = vec![b'a', b' ', b':', b'\r', b'\n', b'/'];
    if extra > 0 {
        alpha.extend([0x80u8, 0x00, b'\t']);
    }
    let mut inputs: Vec<(Vec<u8>, Vec<usize>)> = vec![];
    let mut level: Vec<Vec<u8>> = vec![vec![]];
    for _ in 0..=maxlen {
        for s in &level {
            inputs.push((s.clone(), vec![4, 6]));
        }
        level = level
            .iter()
            .flat_map(|s| {
                alpha.iter().map(move |c| {
                    let mut t = s.clone();
                    t.push(*c);
                    t
                })
            })
            .collect();
    }
    for h in [
        &b"M / HTTP/1.1\r\n\r\n"[..],
        b"M / HTTP/1.1\r\n\r\nX",
        b"M / HTTP/1.1\r\na:b\r\n\r\n",
        b"M / HTTP/1.1\r\na:b\r\n\r\nXY",
        b"M / HTTP/1.0\r\n\r\n",
        b" / HTTP/1.1\r\n\r\n",
        b"M / HTTP/1.1\r\na:\x80\r\n\r\n",
        b"M /\r\n\r\nM / HTTP/1.1\r\n\r\n",
        b"M / HTTP/1.1\r\r\n\r\n",
        b"M / HTTP/1.1\r\r\na:b\r\n\r\n",
        b"M / HTTP/1.1\r\na:b\r\r\n\r\n",
    ] {
        inputs.push((h.to_vec(), vec![15, 16, 17, 21, 24]));
    }
    let mut nruns = 0u64;
    let mut sid = 0u64;
    for (data, sizes) in &inputs {
        for &n in sizes {
            sid += 1;
            if !out.wants(sid) {
                continue;
            }
            let l = data.len();
            let mut outcomes: BTreeSet<(String, usize, bool)> = BTreeSet::new();
            if l <= 12 {
                for mask in 0..(1u64 << l.saturating_sub(1)) {
                    let cuts: Vec<usize> = (1..l).filter(|i| mask >> (i - 1) & 1 == 1).collect();
                    let o = run_n(n, data, &cuts);
                    outcomes.insert((o.0, o.1, o.2));
                    nruns += 1;
                }
            } else {
                for a in 0..=l {
                    for b in a..=l {
                        let mut cuts = vec![];
                        if a > 0 && a < l {
                            cuts.push(a);
                        }
                        if b > a && b < l {
                            cuts.push(b);
                        }
                        let o = run_n(n, data, &cuts);
                        outcomes.insert((o.0, o.1, o.2));
                        nruns += 1;
                    }
                }
                let o = run_n(n, data, &(1..l).collect::<Vec<_>>());
                outcomes.insert((o.0, o.1, o.2));
                nruns += 1;
            }
            let outs: Vec<Value> = outcomes.iter().map(|o| json!({"k": o.0, "rest": o.1, "loop": o.2})).collect();
            out.ev(sid, "Reset", json!({}));
            out.ev(sid, "Splits", json!({"bytes":data,"buf":n,"outcomes":outs}));
        }
    }
    eprintln!("inputs={} runs={}", inputs.len(), nruns);
    out.finish();
}


// ------------------------------------------------------------------------------ req-splits
/// `read_http_request` called repeatedly on ONE buffer of N bytes (as a connection does) until it fails:
/// the list of outcomes, the path of every request read, what is left unread.
fn run_requests<const N: usize>(data: &[u8], cuts: &[usize]) -> (Vec<(String, Vec<u8>)>, usize, bool) {
    let mut buf: FixedBuf<N> = FixedBuf::new();
    let mut rd = ScriptedReader::with_cuts(data.to_vec(), cuts);
    let mut outs = vec![];
    let budget = data.len() + 8;
    for _ in 0..12 {
        let res = catch(|| poll_budget(read_http_request(localhost(1), &mut buf, &mut rd), budget));
        match res {
            Err(()) => {
                outs.push(("Panic".to_string(), vec![]));
                break;
            }
            Ok(None) => {
                outs.push(("Hang".to_string(), vec![]));
                break;
            }
            Ok(Some(Err(e))) => {
                outs.push((http_err_name(&e), vec![]));
                break;
            }
            Ok(Some(Ok(req))) => outs.push(("Ok".to_string(), req.url().path().as_bytes().to_vec())),
        }
    }
    (outs, buf.len() + rd.unread(), rd.polls > 3 * data.len() + 20)
}
fn run_requests_n(n: usize, data: &[u8], cuts: &[usize]) -> (Vec<(String, Vec<u8>)>, usize, bool) {
    match n {
        24 => run_requests::<24>(data, cuts),
        32 => run_requests::<32>(data, cuts),
        40 => run_requests::<40>(data, cuts),
        48 => run_requests::<48>(data, cuts),
        64 => run_requests::<64>(data, cuts),
        _ => run_requests::<8192>(data, cuts),
    }
}

/// C01 at the level of a connection: several heads follow one another on one stream and share one buffer
/// (`buf.shift()` makes the whole buffer available to each).  Wires of 2..4 bodiless requests whose heads
/// individually fit the buffer (some exactly), some followed by a head that does not, under EVERY 1-, 2- and 3-piece
/// partition plus byte-at-a-time; the set of distinct outcome lists is logged (it must be a singleton).
pub fn run_req_splits(args: &Args, mut out: Out) {
    let n = args.u64("n", 60);
    let mut r = args.rng();
    let mut nruns = 0u64;
    for sid in 1..=n {
        let size = *[24usize, 32, 40, 48, 64].choose(&mut r).unwrap();
        let nreq = r.gen_range(2..=4);
        let mut wire: Vec<u8> = vec![];
        for i in 0..nreq {
            // "GET /<pad> HTTP/1.1\r\n\r\n" is 18 + pad bytes; optionally one short field
            let with_field = size >= 32 && r.gen_bool(0.3);
            let base = 18 + if with_field { 5 } else { 0 };
            let max_pad = size - base;
            let pad = match r.gen_range(0..6) {
                0 => max_pad,                                  // the head fills the buffer exactly
                1 => max_pad.saturating_sub(1),
                2 if i == nreq - 1 => max_pad + 1 + r.gen_range(0..3), // one byte (or more) too long: HeadTooLong
                _ => r.gen_range(0..=max_pad),
            };
            wire.extend_from_slice(b"GET /");
            wire.extend(std::iter::repeat(b'a' + (i as u8)).take(pad));
            wire.extend_from_slice(b" HTTP/1.1\r\n");
            if with_field {
                wire.extend_from_slice(b"x:y\r\n");
            }
            wire.extend_from_slice(b"\r\n");
        }
        if r.gen_bool(0.25) {
            let cut = r.gen_range(1..8).min(wire.len());
            wire.truncate(wire.len() - cut); // the last head is cut short: Truncated
        }
        if !out.wants(sid) {
            continue;
        }
        let l = wire.len();
        let mut outcomes: BTreeSet<(Vec<(String, Vec<u8>)>, usize, bool)> = BTreeSet::new();
        for a in 0..=l {
            for b in a..=l {
                let mut cuts = vec![];
                if a > 0 && a < l {
                    cuts.push(a);
                }
                if b > a && b < l {
                    cuts.push(b);
                }
                outcomes.insert(run_requests_n(size, &wire, &cuts));
                nruns += 1;
            }
        }
        outcomes.insert(run_requests_n(size, &wire, &(1..l).collect::<Vec<_>>()));
        let outs: Vec<Value> = outcomes
            .iter()
            .map(|(list, rest, lp)| json!({"list": list.iter().map(|(k, p)| json!({"k":k,"path":ints(p)})).collect::<Vec<_>>(), "rest": rest, "loop": lp}))
            .collect();
        out.ev(sid, "Reset", json!({}));
        out.ev(sid, "ReqSplits", json!({"bytes":ints(&wire),"buf":size,"outcomes":outs}));
    }
    eprintln!("runs={nruns}");
    out.finish();
}

/// A sample of inputs through a real server over loopback.
pub fn run_tcp(args: &Args, mut out: Out) {
    let n = args.usize("n", 200);
    let mut r = args.rng();
    safina::timer::start_timer_thread();
    let executor = safina::executor::Executor::new(2, 2).unwrap();
    let permit = permit::Permit::new();
    let (addr, _stopped) = executor
        .block_on(
            HttpServerBuilder::new()
                .listen_addr(socket_addr_127_0_0_1_any_port())
                .max_conns(50)
                .permit(permit.new_sub())
                .spawn(|_req: Request| Response::text(200, "ok")),
        )
        .unwrap();
    take_panics();
    for sid in 1..=(n as u64) {
        let mut h = gen_head(&mut r);
        if sid % 4 != 0 {
            h = mutate(&mut r, h);
        }
        let eof_at = if r.gen_bool(0.3) { r.gen_range(0..=h.len()) } else { h.len() };
        let data = &h[..eof_at];
        let mut c = std::net::TcpStream::connect(addr).unwrap();
        c.set_read_timeout(Some(std::time::Duration::from_secs(10))).unwrap();
        let cuts = random_cuts(&mut r, data.len());
        let mut prev = 0;
        for cut in cuts.iter().chain(std::iter::once(&data.len())) {
            let _ = c.write_all(&data[prev..*cut]);
            let _ = c.flush();
            prev = *cut;
        }
        let _ = c.shutdown(std::net::Shutdown::Write);
        let mut got = vec![];
        let res = c.read_to_end(&mut got);
        let ended = match res {
            Ok(_) => "Eof",
            Err(e) if e.kind() == std::io::ErrorKind::ConnectionReset => "Eof",
            Err(_) => "Timeout",
        };
        // give a dying connection task time to record its panic
        let panics = servlin_panics(&take_panics());
        if !out.wants(sid) {
            continue;
        }
        out.ev(sid, "Reset", json!({}));
        out.ev(
            sid,
            "Tcp",
            json!({"bytes":ints(data),"ended":ended,"gotlen":got.len(),
                   "status": std::str::from_utf8(got.get(9..12).unwrap_or(b"000")).ok().and_then(|s| s.parse::<u64>().ok()).unwrap_or(0),
                   "panics": panics}),
        );
    }
    drop(permit);
    out.finish();
}
