//! C15: `cookie-set` builds cookies through the response API (all attribute combinations,
//! names over token characters, values over cookie-octets, Max-Age 0..2^40) and logs the
//! single `set-cookie` field; `cookie-req` sends generated Cookie headers (0..10 pairs,
//! cookie-octet values incl. '=' and quotes, empty values, stray ';' and blanks, 1..3 Cookie
//! fields, mutations dropping '=') through `read_http_request`.
use crate::common::*;
use fixed_buffer::FixedBuf;
use rand::prelude::*;
use serde_json::json;
use servlin::internal::*;
#[allow(unused_imports)]
use servlin::*;
use std::time::Duration;

pub fn run_set(args: &Args, mut out: Out) {
    let n = args.u64("n", 2000);
    let mut r = args.rng();
    let tchar: Vec<u8> = b"!#$%&'*+-.^_`|~0123456789abcdefghijklmnopqrstuvwxyzABCDEFGHIJKLMNOPQRSTUVWXYZ".to_vec();
    let octet: Vec<u8> = (0x21u8..=0x7e).filter(|b| !matches!(*b, b'"' | b',' | b';' | b'\\')).collect();
    let pathc: Vec<u8> = (0x21u8..=0x7e).filter(|b| *b != b';').collect();
    for sid in 1..=n {
        let name: String = (0..r.gen_range(1..10)).map(|_| *tchar.choose(&mut r).unwrap() as char).collect();
        let value: String = (0..r.gen_range(0..14)).map(|_| *octet.choose(&mut r).unwrap() as char).collect();
        let domain: String = if r.gen_bool(0.5) {
            String::new()
        } else {
            (0..r.gen_range(1..12)).map(|_| *b"abcXYZ019-.".choose(&mut r).unwrap() as char).collect::<String>().trim_matches('.').to_string()
        };
        let path: String = if r.gen_bool(0.5) {
            String::new()
        } else {
            format!("/{}", (0..r.gen_range(0..10)).map(|_| *pathc.choose(&mut r).unwrap() as char).collect::<String>().trim_end())
        };
        let max_age: u64 = *[0u64, 1, 59, 3600, 2_592_000, 1 << 31, 1 << 40, r.gen_range(0..1 << 40)].choose(&mut r).unwrap();
        let (secure, http_only) = (r.gen_bool(0.5), r.gen_bool(0.5));
        let expires_s: u64 = if r.gen_bool(0.5) { 0 } else { *[1u64, 86_399, 951_782_400, 4_102_444_799, 253_402_300_799].choose(&mut r).unwrap() };
        let ss = [SameSite::Strict, SameSite::Lax, SameSite::None].choose(&mut r).unwrap().clone();
        let ss_s = match ss {
            SameSite::Strict => "strict",
            SameSite::Lax => "lax",
            SameSite::None => "none",
        };
        if !out.wants(sid) {
            continue;
        }
        let res = catch(|| {
            // (every setter may be called more than once: the last call wins)
            let c = Cookie::new(&name, value.clone().try_into().unwrap())
                .with_secure(!secure)
                .with_http_only(!http_only)
                .with_same_site(SameSite::Lax)
                .with_max_age(Duration::from_secs(7))
                .with_domain("first.example")
                .with_path("/first")
                .with_domain(&domain)
                .with_path(&path)
                .with_max_age(Duration::from_secs(max_age))
                .with_secure(secure)
                .with_http_only(http_only)
                .with_same_site(ss.clone())
                // an expiry date in half of the cookies: its text is outside C15 (and pinned), but the attributes after
                // and before it must still read back
                .with_expires(if expires_s == 0 { std::time::SystemTime::UNIX_EPOCH } else { std::time::SystemTime::UNIX_EPOCH + Duration::from_secs(expires_s) });
            // two cookies on one response: one set-cookie field per cookie
            let resp = Response::new(200).with_set_cookie(c).with_set_cookie(Cookie::new("other", "v".try_into().unwrap()));
            resp.headers
                .iter()
                .filter(|h| h.name.eq_ignore_ascii_case("set-cookie"))
                .map(|h| h.value.as_str().to_string())
                .collect::<Vec<String>>()
        });
        let fields = res.unwrap_or_default();
        let mine: Vec<&String> = fields.iter().filter(|f| !f.starts_with("other=")).collect();
        out.ev(sid, "Reset", json!({}));
        out.ev(
            sid,
            "SetCookie",
            json!({"name":ints(name.as_bytes()),"value":ints(value.as_bytes()),"domain":ints(domain.as_bytes()),"path":ints(path.as_bytes()),
                   "maxAge":ints(max_age.to_string().as_bytes()),"secure":secure,"httpOnly":http_only,"sameSite":ints(ss_s.as_bytes()),
                   "count": if fields.len() == 2 { mine.len() } else { fields.len() + 100 },
                   "field":ints(mine.first().map_or("", |s| s.as_str()).as_bytes())}),
        );
    }
    out.finish();
}

pub fn run_req(args: &Args, mut out: Out) {
    let n = args.u64("n", 2000);
    let mut r = args.rng();
    let octet: Vec<u8> = (0x21u8..=0x7e).filter(|b| !matches!(*b, b',' | b';' | b'\\')).collect(); // incl. '=' and '"'
    let names: Vec<&str> = vec!["a", "b", "sid", "SID", "k-1", "x_y", "a"]; // "a" twice: duplicates happen
    for sid in 1..=n {
        let nfields = r.gen_range(1..=3);
        let mut fields: Vec<(String, String)> = vec![];
        for _ in 0..nfields {
            let npairs = if r.gen_bool(0.1) { 10 } else { r.gen_range(0..=4) };
            let mut v = String::new();
            for k in 0..npairs {
                if k > 0 {
                    v.push_str(*[";", "; ", " ; ", ";;", "; ;"].choose(&mut r).unwrap());
                }
                let name = *names.choose(&mut r).unwrap();
                let mut value: String = (0..r.gen_range(0..8)).map(|_| *octet.choose(&mut r).unwrap() as char).collect();
                // RFC 6265 cookie-value = *cookie-octet / ( DQUOTE *cookie-octet DQUOTE ): the quotes are part of the value
                match r.gen_range(0..12) {
                    0 | 1 => value = format!("\"{value}\""),
                    2 => value = "\"\"".into(),
                    3 => value = format!("\"{value}"),
                    4 => value = format!("{value}\""),
                    _ => {}
                }
                let drop_eq = r.gen_bool(0.04);
                if drop_eq {
                    v.push_str(name);
                    v.push_str(&value.replace('=', ""));
                } else {
                    v.push_str(&format!("{name}={value}"));
                }
            }
            if r.gen_bool(0.2) {
                v.push_str(*[";", " ", "; "].choose(&mut r).unwrap());
            }
            fields.push(((*["cookie", "Cookie", "COOKIE"].choose(&mut r).unwrap()).to_string(), v));
        }
        for k in 0..r.gen_range(0..3) {
            fields.push(("x-other".into(), format!("v{k}")));
        }
        fields.shuffle(&mut r);
        if !out.wants(sid) {
            continue;
        }
        let mut msg = "GET /p HTTP/1.1\r\n".to_string();
        for (n, v) in &fields {
            msg.push_str(&format!("{n}: {v}\r\n"));
        }
        msg.push_str("\r\nBODYBYTES");
        let mut buf: FixedBuf<8192> = FixedBuf::new();
        let mut rd = ScriptedReader::with_cuts(msg.as_bytes().to_vec(), &[]);
        let res = catch(|| poll_budget(read_http_request(localhost(1), &mut buf, &mut rd), msg.len() + 20));
        let outv = match res {
            Err(()) => json!({"k":"Panic","kind":""}),
            Ok(None) => json!({"k":"Hang","kind":""}),
            Ok(Some(Err(e))) => json!({"k":"err","kind":variant_name(&e)}),
            Ok(Some(Ok(req))) => crate::drivers::framing::request_json(&req, buf.len() + rd.unread()),
        };
        out.ev(sid, "Reset", json!({}));
        out.ev(
            sid,
            "Req",
            json!({"method":ints(b"GET"),
                   "fields":fields.iter().map(|(n, v)| json!([ints(n.as_bytes()), ints(v.trim_matches(|c| c == ' ' || c == '\t').as_bytes())])).collect::<Vec<_>>(),
                   "out":outv}),
        );
    }
    out.finish();
}
