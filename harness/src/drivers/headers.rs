//! C14: `headers-enum` (every op sequence to a depth on a real `HeaderList`, whole list
//! logged after each op), `ascii-ctors` (every `AsciiString` constructor on ASCII and
//! non-ASCII input).
use crate::common::*;
use rand::prelude::*;
use serde_json::{json, Value};
use servlin::internal::*;
use servlin::*;
use std::borrow::Cow;
use std::convert::TryFrom;

fn op_pool() -> Vec<(String, String)> {
    let names = ["a", "A", "b", "B", "c", "C"];
    let look = ["a", "B", "c"];
    let mut ops: Vec<(String, String)> = names.iter().map(|x| ("add".to_string(), (*x).to_string())).collect();
    for o in ["get_only", "get_all", "remove_only", "remove_all"] {
        for x in look {
            ops.push((o.to_string(), x.to_string()));
        }
    }
    ops
}

fn run_seq(out: &mut Out, sid: u64, seq: &[(String, String)]) {
    let mut h = HeaderList::new();
    let mut v = 0u32;
    out.ev(sid, "Reset", json!({}));
    for (op, name) in seq {
        // (in every other scenario values repeat: two fields may be identical in name, case and value, and are still two fields)
        let value = if sid % 2 == 1 { format!("v{}", v % 2) } else { format!("v{v}") };
        let ret: Result<Value, ()> = catch(|| match op.as_str() {
            "add" => {
                h.add(name, value.clone().try_into().unwrap());
                json!([])
            }
            "get_only" => json!(h.get_only(name).map(|x| vec![ints(x.as_bytes())]).unwrap_or_default()),
            "get_all" => json!(h.get_all(name).iter().map(|x| ints(x.as_bytes())).collect::<Vec<_>>()),
            "remove_only" => json!(h.remove_only(name).map(|x| vec![ints(x.as_bytes())]).unwrap_or_default()),
            _ => json!(h.remove_all(name).iter().map(|x| ints(x.as_bytes())).collect::<Vec<_>>()),
        });
        if op == "add" {
            v += 1;
        }
        let list: Vec<Value> = h.iter().map(|f| json!([ints(f.name.as_bytes()), ints(f.value.as_bytes())])).collect();
        out.ev(
            sid,
            "Op",
            json!({"op":op,"name":ints(name.as_bytes()),"value":ints(value.as_bytes()),
                   "ret":ret.clone().unwrap_or(json!([])),"panic":ret.is_err(),"list":list}),
        );
    }
}

pub fn run_enum(args: &Args, mut out: Out) {
    let depth = args.usize("depth", 4);
    let sample = args.usize("sample", 0);
    let sample_depth = args.usize("sample-depth", 12);
    let mut rng = args.rng();
    let ops = op_pool();
    let k = ops.len();
    let mut sid = 0u64;
    for d in 1..=depth {
        for code in 0..k.pow(d as u32) {
            sid += 1;
            if !out.wants(sid) {
                continue;
            }
            let mut c = code;
            let mut seq = vec![];
            for _ in 0..d {
                seq.push(ops[c % k].clone());
                c /= k;
            }
            run_seq(&mut out, sid, &seq);
        }
    }
    for j in 0..sample {
        sid += 1;
        // favour adds early so that lists grow long before removals
        let seq: Vec<(String, String)> = if j % 6 == 1 {
            // lookup names need not be ASCII (`impl AsRef<str>`): characters whose Unicode case mapping lands in ASCII
            // (KELVIN SIGN -> k, LONG S -> S, dotted capital I -> i + combining dot) match nothing, names are compared
            // as ASCII bytes
            let stored = ["k", "K", "s", "S", "i", "ke", "KE"];
            let looked = ["k", "K", "s", "ke", "\u{212A}", "\u{212A}e", "\u{212A}E", "\u{17F}", "\u{130}", "\u{e9}"];
            (0..sample_depth)
                .map(|i| {
                    if i < sample_depth / 2 && rng.gen_bool(0.7) {
                        ("add".to_string(), (*stored.choose(&mut rng).unwrap()).to_string())
                    } else {
                        let op = *["get_only", "get_all", "remove_only", "remove_all"].choose(&mut rng).unwrap();
                        (op.to_string(), (*looked.choose(&mut rng).unwrap()).to_string())
                    }
                })
                .collect()
        } else if j % 6 == 4 {
            // names related as prefix / suffix / repetition of one another (and in either letter case): a lookup must match
            // the whole name
            let pool = ["a", "ab", "abc", "A", "AB", "aB", "a-", "-a", "aa", "b-a", "a-b", "content-length", "content-length-hint", "x-content-length", "Content-Len"];
            (0..sample_depth)
                .map(|i| {
                    let name = (*pool.choose(&mut rng).unwrap()).to_string();
                    let op = if i < sample_depth / 2 && rng.gen_bool(0.7) { "add" } else { *["add", "get_only", "get_all", "remove_only", "remove_all"].choose(&mut rng).unwrap() };
                    (op.to_string(), name)
                })
                .collect()
        } else if j % 3 == 2 {
            // names that are easily confused: every pair of name bytes that differs only in bit 5 (the bit that
            // separates upper from lower case letters -- and '^' from '~', '_' from DEL, '@' from '`', '\\' from '|',
            // digits from control bytes), so that near-miss lookups are frequent
            let alphabet: &[u8] = b"aA^~_\x7f@`|\\1\x11-\x0d!\x01zZ";
            let base: Vec<u8> = (0..rng.gen_range(1..=3)).map(|_| *alphabet.choose(&mut rng).unwrap()).collect();
            let variant = |rng: &mut StdRng| -> String {
                let v: Vec<u8> = base.iter().map(|b| if rng.gen_bool(0.4) { b ^ 0x20 } else { *b }).collect();
                String::from_utf8(v).unwrap()
            };
            (0..sample_depth)
                .map(|i| {
                    let name = variant(&mut rng);
                    let op = if i < sample_depth / 2 && rng.gen_bool(0.7) { "add" } else { *["add", "get_only", "get_all", "remove_only", "remove_all"].choose(&mut rng).unwrap() };
                    (op.to_string(), name)
                })
                .collect()
        } else {
            (0..sample_depth)
                .map(|i| if i < sample_depth / 2 && rng.gen_bool(0.7) { ops[rng.gen_range(0..6)].clone() } else { ops.choose(&mut rng).unwrap().clone() })
                .collect()
        };
        if out.wants(sid) {
            run_seq(&mut out, sid, &seq);
        }
    }
    out.finish();
}

fn ctor_result(r: Result<AsciiString, String>) -> Value {
    match r {
        Ok(a) => json!({"ok":true,"bytes":ints(a.as_bytes())}),
        Err(_) => json!({"ok":false,"bytes":[]}),
    }
}

pub fn run_ctors(args: &Args, mut out: Out) {
    let n = args.usize("n", 300);
    let mut rng = args.rng();
    let mut inputs: Vec<String> = vec![
        String::new(),
        "a".into(),
        "\u{7f}".into(),
        "\u{80}".into(),
        "é".into(),
        "abc\u{100}".into(),
        "\u{0}".into(),
        "x\ty".into(),
        "日本".into(),
        "\u{10ffff}".into(),
        "plain ascii 123 ~!".into(),
    ];
    for _ in 0..n {
        let len = rng.gen_range(0..12);
        let s: String = (0..len)
            .map(|_| match rng.gen_range(0..10) {
                0 => char::from_u32(rng.gen_range(0x80..0x800)).unwrap_or('é'),
                1 => char::from_u32(rng.gen_range(0x10000..0x10ffff)).unwrap_or('x'),
                2 => char::from(rng.gen_range(0..32u8)),
                _ => char::from(rng.gen_range(32..127u8)),
            })
            .collect();
        inputs.push(s);
    }
    let mut sid = 0;
    for s in &inputs {
        sid += 1;
        out.ev(sid, "Reset", json!({}));
        let mut results: Vec<(String, Value)> = vec![];
        results.push(("String".into(), ctor_result(catch(|| AsciiString::try_from(s.clone())).unwrap_or(Err("panic".into())))));
        results.push(("&String".into(), ctor_result(catch(|| AsciiString::try_from(s)).unwrap_or(Err("panic".into())))));
        results.push(("&str".into(), ctor_result(catch(|| AsciiString::try_from(s.as_str())).unwrap_or(Err("panic".into())))));
        let mut m = s.clone();
        results.push(("&mut str".into(), ctor_result(catch(|| AsciiString::try_from(m.as_mut_str())).unwrap_or(Err("panic".into())))));
        results.push(("Box<str>".into(), ctor_result(catch(|| AsciiString::try_from(s.clone().into_boxed_str())).unwrap_or(Err("panic".into())))));
        results.push(("Cow::Borrowed".into(), ctor_result(catch(|| AsciiString::try_from(Cow::Borrowed(s.as_str()))).unwrap_or(Err("panic".into())))));
        results.push(("Cow::Owned".into(), ctor_result(catch(|| AsciiString::try_from(Cow::<str>::Owned(s.clone()))).unwrap_or(Err("panic".into())))));
        if s.chars().count() == 1 {
            let c = s.chars().next().unwrap();
            results.push(("char".into(), ctor_result(catch(|| AsciiString::try_from(c)).unwrap_or(Err("panic".into())))));
        }
        for (ctor, r) in results {
            out.ev(sid, "Ctor", json!({"ctor":ctor,"input":cps(s),"res":r}));
        }
    }
    // the integer constructors
    let nums: Vec<(String, AsciiString, String)> = vec![
        ("i8".into(), AsciiString::from(i8::MIN), i8::MIN.to_string()),
        ("u8".into(), AsciiString::from(u8::MAX), u8::MAX.to_string()),
        ("i16".into(), AsciiString::from(i16::MIN), i16::MIN.to_string()),
        ("u16".into(), AsciiString::from(u16::MAX), u16::MAX.to_string()),
        ("i32".into(), AsciiString::from(i32::MIN), i32::MIN.to_string()),
        ("u32".into(), AsciiString::from(u32::MAX), u32::MAX.to_string()),
        ("i64".into(), AsciiString::from(i64::MIN), i64::MIN.to_string()),
        ("u64".into(), AsciiString::from(u64::MAX), u64::MAX.to_string()),
        ("usize".into(), AsciiString::from(usize::MAX), usize::MAX.to_string()),
        ("u8".into(), AsciiString::from(0u8), "0".into()),
        ("i64".into(), AsciiString::from(-1i64), "-1".into()),
    ];
    for (ctor, a, text) in nums {
        sid += 1;
        out.ev(sid, "Reset", json!({}));
        out.ev(sid, "Ctor", json!({"ctor":ctor,"input":cps(&text),"res":{"ok":true,"bytes":ints(a.as_bytes())}}));
    }
    out.finish();
}
