//! C05 (also C03/C08/C20 close marking): every sequence of `HttpConn` operations up to
//! `--depth`, plus `--sample` random sequences of depth `--sample-depth`, over the
//! client scripts.  The client has pre-written its script and half-closed, so every
//! call completes deterministically.  After each call the public protocol state is
//! logged; at the end the client's transcript is projected to response tokens.
use crate::common::*;
use rand::prelude::*;
use serde_json::{json, Value};
use servlin::internal::*;
#[allow(unused_imports)]
use servlin::*;
use std::io::{Read, Write};

#[derive(Clone, Debug)]
pub enum Op {
    ReadRequest,
    ReadBodyToVec,
    ReadBodyToFile(u64),
    WriteContinue,
    WriteResponse(&'static str, u16, bool),
    ShutdownWrite,
}

fn head(bad: &str, body: &str, len: u64, ex: bool, ch: bool, gz: bool) -> Value {
    json!({"t":"Head","bad":bad,"body":body,"len":len,"expect":ex,"chunked":ch,"gzip":gz})
}
fn bytes(n: u64) -> Value {
    json!({"t":"Bytes","n":n})
}
pub fn scripts() -> Vec<(Vec<u8>, Value)> {
    vec![
        (b"".to_vec(), json!([])),
        (b"GET / HTTP/1.1\r\n\r\n".to_vec(), json!([head("", "none", 0, false, false, false)])),
        (
            b"GET / HTTP/1.1\r\ncontent-length: 3\r\n\r\nabc".to_vec(),
            json!([head("", "known", 3, false, false, false), bytes(3)]),
        ),
        (
            b"GET / HTTP/1.1\r\ncontent-length: 3\r\n\r\nabcGET /2 HTTP/1.1\r\n\r\n".to_vec(),
            json!([head("", "known", 3, false, false, false), bytes(3), head("", "none", 0, false, false, false)]),
        ),
        (
            b"GET / HTTP/1.1\r\ncontent-length: 3\r\nexpect: 100-continue\r\n\r\nabc".to_vec(),
            json!([head("", "known", 3, true, false, false), bytes(3)]),
        ),
        (b"POST / HTTP/1.1\r\n\r\nabcde".to_vec(), json!([head("", "unknown", 0, false, false, false), bytes(5)])),
        (
            b"GET / HTTP/1.1\r\ntransfer-encoding: chunked\r\n\r\n3\r\nabc\r\n".to_vec(),
            json!([head("", "unknown", 0, false, true, false), bytes(8)]),
        ),
        (
            b"GET / HTTP/1.1\r\ncontent-length: 10\r\n\r\nabcd".to_vec(),
            json!([head("", "known", 10, false, false, false), bytes(4)]),
        ),
        (b"\x00\x01 garbage\r\n\r\n".to_vec(), json!([head("MalformedRequestLine", "none", 0, false, false, false)])),
        (b"garbage without end".to_vec(), json!([{"t":"Partial"}])),
        (
            b"PUT /u HTTP/1.1\r\nexpect: 100-continue\r\n\r\nabcde".to_vec(),
            json!([head("", "unknown", 0, true, false, false), bytes(5)]),
        ),
        (
            b"GET / HTTP/1.1\r\ntransfer-encoding: gzip\r\n\r\nzz".to_vec(),
            json!([head("", "unknown", 0, false, false, true), bytes(2)]),
        ),
        (
            b"GET / HTTP/1.1\r\ntransfer-encoding: gzip\r\ncontent-length: 3\r\n\r\nabc".to_vec(),
            json!([head("", "known", 3, false, false, true), bytes(3)]),
        ),
        (
            b"GET /a HTTP/1.1\r\n\r\nGET /b HTTP/1.1\r\n\r\n".to_vec(),
            json!([head("", "none", 0, false, false, false), head("", "none", 0, false, false, false)]),
        ),
    ]
}
pub fn ops() -> Vec<Op> {
    vec![
        Op::ReadRequest,
        Op::ReadBodyToVec,
        Op::WriteContinue,
        Op::ShutdownWrite,
        Op::ReadBodyToFile(0),
        Op::ReadBodyToFile(2),
        Op::ReadBodyToFile(3),
        Op::ReadBodyToFile(1000),
        Op::WriteResponse("Normal", 103, false),
        Op::WriteResponse("Normal", 200, false),
        Op::WriteResponse("Normal", 404, false),
        Op::WriteResponse("Normal", 500, false),
        Op::WriteResponse("GetBody", 0, false),
        Op::WriteResponse("Drop", 0, false),
        Op::WriteResponse("Normal", 200, true),
    ]
}
fn op_json(op: &Op) -> Value {
    match op {
        Op::ReadRequest => json!({"op":"ReadRequest"}),
        Op::ReadBodyToVec => json!({"op":"ReadBodyToVec"}),
        Op::ReadBodyToFile(m) => json!({"op":"ReadBodyToFile","max":m}),
        Op::WriteContinue => json!({"op":"WriteContinue"}),
        Op::WriteResponse(k, c, d) => json!({"op":"WriteResponse","resp":{"kind":k,"code":c,"dup":d}}),
        Op::ShutdownWrite => json!({"op":"ShutdownWrite"}),
    }
}
pub fn err_kind(e: &HttpError) -> String {
    match e {
        HttpError::DuplicateContentLengthHeader
        | HttpError::DuplicateContentTypeHeader
        | HttpError::DuplicateTransferEncodingHeader => "DuplicateHeader".into(),
        other => variant_name(other),
    }
}
pub fn rs_json(rs: &ReadState) -> Value {
    match rs {
        ReadState::Head => json!({"k":"Head","known":false,"len":0,"expect":false,"chunked":false,"gzip":false}),
        ReadState::Shutdown => json!({"k":"Shutdown","known":false,"len":0,"expect":false,"chunked":false,"gzip":false}),
        ReadState::Body { len, expect_continue, chunked, gzip } => {
            json!({"k":"Body","known":len.is_some(),"len":len.unwrap_or(0),"expect":expect_continue,"chunked":chunked,"gzip":gzip})
        }
    }
}
pub fn ws_str(ws: &WriteState) -> &'static str {
    match ws {
        WriteState::None => "None",
        WriteState::Response => "Response",
        WriteState::Shutdown => "Shutdown",
    }
}
/// Lexical projection of the client-side transcript: status code and whether
/// `connection: close` is present, one token per response.  The body is skipped by the
/// length the head itself declares.
pub fn wire_tokens(bytes: &[u8]) -> Value {
    let mut out = vec![];
    let mut rest = bytes;
    while !rest.is_empty() {
        let Some(p) = rest.windows(4).position(|w| w == b"\r\n\r\n") else {
            out.push(json!({"code":0,"close":false,"walkerror":rest.len()}));
            break;
        };
        let head = std::str::from_utf8(&rest[..p]).unwrap_or("");
        let code: u64 = head.get(9..12).and_then(|s| s.parse().ok()).unwrap_or(0);
        let ok_line = head.starts_with("HTTP/1.1 ");
        let close = head.split("\r\n").any(|l| l == "connection: close");
        let cl: usize =
            head.split("\r\n").find_map(|l| l.strip_prefix("content-length: ")).and_then(|s| s.parse().ok()).unwrap_or(0);
        let next = p + 4 + cl;
        if next > rest.len() || !ok_line {
            out.push(json!({"code":code,"close":close,"walkerror":rest.len()}));
            break;
        }
        out.push(json!({"code":code,"close":close}));
        rest = &rest[next..];
    }
    Value::Array(out)
}

pub fn run(args: &Args, mut out: Out) {
    let depth = args.usize("depth", 3);
    let sample = args.usize("sample", 0);
    let sample_depth = args.usize("sample-depth", 5);
    let mut rng = args.rng();
    let listener = std::net::TcpListener::bind("127.0.0.1:0").unwrap();
    let addr = listener.local_addr().unwrap();
    let dir = temp_dir::TempDir::new().unwrap();
    let all_ops = ops();
    let all_scripts = scripts();
    let n = all_ops.len();
    let mut sid = 0u64;
    let mut todo: Vec<(usize, Vec<Op>)> = vec![];
    for si in 0..all_scripts.len() {
        for d in 1..=depth {
            for code in 0..n.pow(d as u32) {
                let mut c = code;
                let mut seq = vec![];
                for _ in 0..d {
                    seq.push(all_ops[c % n].clone());
                    c /= n;
                }
                todo.push((si, seq));
            }
        }
    }
    for _ in 0..sample {
        let si = rng.gen_range(0..all_scripts.len());
        let seq = (0..sample_depth).map(|_| all_ops.choose(&mut rng).unwrap().clone()).collect();
        todo.push((si, seq));
    }
    for (si, seq) in todo {
        sid += 1;
        if !out.wants(sid) {
            continue;
        }
        let (bytes, items) = &all_scripts[si];
        out.ev(sid, "Reset", json!({"script":si,"inq":items}));
        let mut client = std::net::TcpStream::connect(addr).unwrap();
        // Closing the write side must not affect reading.  When a sequence closes the write side (shutdown_write, or a
        // 5xx answer) and reads a body afterwards, the client sends only the head up front and the rest 8 ms later: the
        // read has to WAIT for the body -- whatever is delivered, the calls' results are those of up-front delivery.
        let closes = |o: &Op| matches!(o, Op::ShutdownWrite) || matches!(o, Op::WriteResponse(_, c, _) if *c >= 500);
        let reads = |o: &Op| matches!(o, Op::ReadBodyToVec | Op::ReadBodyToFile(_));
        let head_end = bytes.windows(4).position(|w| w == b"\r\n\r\n").map(|p| p + 4);
        let late = match head_end {
            Some(h) if h < bytes.len() => seq.iter().position(closes).map_or(false, |i| seq[i + 1..].iter().any(reads)),
            _ => false,
        };
        let mut late_sender = None;
        if late {
            let h = head_end.unwrap();
            client.write_all(&bytes[..h]).unwrap();
            let mut c2 = client.try_clone().unwrap();
            let rest = bytes[h..].to_vec();
            late_sender = Some(std::thread::spawn(move || {
                std::thread::sleep(std::time::Duration::from_millis(8));
                let _ = c2.write_all(&rest);
                let _ = c2.shutdown(std::net::Shutdown::Write);
            }));
        } else {
            client.write_all(bytes).unwrap();
            client.shutdown(std::net::Shutdown::Write).unwrap();
        }
        let (s, peer) = listener.accept().unwrap();
        let mut conn = HttpConn::new(peer, async_net::TcpStream::try_from(s).unwrap());
        for op in &seq {
            let res: Result<Result<(), HttpError>, ()> = catch(|| {
                futures_lite::future::block_on(async {
                    match op {
                        Op::ReadRequest => conn.read_request().await.map(|_| ()),
                        Op::ReadBodyToVec => conn.read_body_to_vec().await.map(|_| ()),
                        Op::ReadBodyToFile(m) => conn.read_body_to_file(dir.path(), *m).await.map(|_| ()),
                        Op::WriteContinue => conn.write_http_continue().await,
                        Op::WriteResponse(k, code, dup) => {
                            let r = match *k {
                                "GetBody" => Response::get_body_and_reprocess(5),
                                "Drop" => Response::drop_connection(),
                                _ => {
                                    let r = Response::text(*code, "hi");
                                    if *dup {
                                        r.with_header("Content-Type", "x".try_into().unwrap())
                                    } else {
                                        r
                                    }
                                }
                            };
                            conn.write_response(&r).await
                        }
                        Op::ShutdownWrite => {
                            conn.shutdown_write();
                            Ok(())
                        }
                    }
                })
            });
            let kind = match &res {
                Ok(Ok(())) => "Ok".to_string(),
                Ok(Err(e)) => err_kind(e),
                Err(()) => "Panic".to_string(),
            };
            let mut ev = op_json(op);
            let m = ev.as_object_mut().unwrap();
            m.insert("res".into(), json!(kind));
            m.insert("ready".into(), json!(conn.is_ready()));
            m.insert("rs".into(), rs_json(&conn.read_state));
            m.insert("ws".into(), json!(ws_str(&conn.write_state)));
            out.ev(sid, "Call", ev);
        }
        let mut got = Vec::new();
        if let Some(h) = late_sender {
            let _ = h.join();
            // Body bytes that arrived after the server stopped reading are still unread in its kernel queue when the
            // connection is dropped, so the close is a reset, and a reset discards what the client has not read yet: take
            // what the server has written so far BEFORE the connection goes away.
            // (over loopback whatever the server has written is already in the client's queue: a non-blocking read gets it)
            client.set_nonblocking(true).unwrap();
            let mut buf = [0u8; 4096];
            loop {
                match client.read(&mut buf) {
                    Ok(0) => break,
                    Ok(k) => got.extend_from_slice(&buf[..k]),
                    Err(_) => break,
                }
            }
            client.set_nonblocking(false).unwrap();
            // ... and, so that the close is not a reset in the first place, the server's end first takes what is left unread
            // in its kernel queue (the late body bytes arrived in one segment with the byte the server did read, so they are
            // all there).  The state of the `HttpConn` is not looked at any more.
            {
                use futures_lite::AsyncReadExt;
                let mut sink = [0u8; 4096];
                for _ in 0..64 {
                    let got_some = futures_lite::future::block_on(futures_lite::future::poll_once(conn.stream.read(&mut sink)));
                    if !matches!(got_some, Some(Ok(n)) if n > 0) {
                        break;
                    }
                }
            }
        }
        drop(conn);
        let _ = client.read_to_end(&mut got);
        out.ev(sid, "Drain", json!({"wire": wire_tokens(&got)}));
    }
    take_panics();
    out.finish();
}
