use crate::common::{Args, Out};
pub mod conn_enum;

pub fn run(args: &Args, out: Out) {
    match args.driver.as_str() {
        "conn-enum" => conn_enum::run(args, out),
        other => {
            eprintln!("unknown driver {other}");
            std::process::exit(2)
        }
    }
}
