use crate::common::{Args, Out};
pub mod calendar;
pub mod conn_enum;
pub mod cookies;
pub mod exchange;
pub mod framing;
pub mod head;
pub mod headers;
pub mod logfiles;
pub mod logger;
pub mod logjson;
pub mod response;
pub mod server;
pub mod sse;

pub fn run(args: &Args, out: Out) {
    match args.driver.as_str() {
        "conn-enum" => conn_enum::run(args, out),
        "head-gen" => head::run_gen(args, out),
        "head-splits" => head::run_splits(args, out),
        "req-splits" => head::run_req_splits(args, out),
        "head-tcp" => head::run_tcp(args, out),
        "resp-gen" => response::run_gen(args, out),
        "chunk-lens" => response::run_chunk_lens(args, out),
        "chunk-gen" => response::run_chunk_gen(args, out),
        "resp-faults" => response::run_faults(args, out),
        "status-all" => response::run_status(args, out),
        "builder-gen" => response::run_builder(args, out),
        "exchange-gen" => exchange::run_gen(args, out),
        "upload-diskfull" => exchange::run_diskfull(args, out),
        "diskfull-child" => exchange::run_diskfull_child(args, out),
        "recv-body" => exchange::run_recv_body(args, out),
        "limits" => exchange::run_limits(args, out),
        "permit-race" => server::run_permit_race(args, out),
        "tokens-enum" => server::run_tokens(args, out),
        "server-stress" => server::run_stress(args, out),
        "sse-replay" => sse::run_replay(args, out),
        "sse-content" => sse::run_content(args, out),
        "sse-threads" => sse::run_threads(args, out),
        "date-sweep" => calendar::run_sweep(args, out),
        "json-scalars" => logjson::run_scalars(args, out),
        "json-lines" => logjson::run_lines(args, out),
        "logger-threads" => logger::run_threads(args, out),
        "logwriter-run" => logfiles::run_writer(args, out),
        "logwriter-crash" => logfiles::run_crash(args, out),
        "logwriter-child" => logfiles::run_child(args),
        "fileset-ops" => logfiles::run_fileset(args, out),
        "cookie-set" => cookies::run_set(args, out),
        "cookie-req" => cookies::run_req(args, out),
        "headers-enum" => headers::run_enum(args, out),
        "ascii-ctors" => headers::run_ctors(args, out),
        "framing-gen" => framing::run_gen(args, out),
        "pipeline-gen" => framing::run_pipeline(args, out),
        other => {
            eprintln!("unknown driver {other}");
            std::process::exit(2)
        }
    }
}
