use crate::common::{Args, Out};
#[cfg(feature = "d_calendar")]
pub mod calendar;
#[cfg(feature = "d_conn_enum")]
pub mod conn_enum;
#[cfg(feature = "d_cookies")]
pub mod cookies;
#[cfg(feature = "d_exchange")]
pub mod exchange;
#[cfg(feature = "d_framing")]
pub mod framing;
#[cfg(feature = "d_head")]
pub mod head;
#[cfg(feature = "d_headers")]
pub mod headers;
#[cfg(feature = "d_logfiles")]
pub mod logfiles;
#[cfg(feature = "d_logger")]
pub mod logger;
#[cfg(feature = "d_logjson")]
pub mod logjson;
#[cfg(feature = "d_response")]
pub mod response;
#[cfg(feature = "d_permit_race")]
pub mod permit_race;
#[cfg(feature = "d_server")]
pub mod server;
#[cfg(feature = "d_sse")]
pub mod sse;

pub fn run(args: &Args, out: Out) {
    match args.driver.as_str() {
        #[cfg(feature = "d_conn_enum")]
        "conn-enum" => conn_enum::run(args, out),
        #[cfg(feature = "d_head")]
        "head-gen" => head::run_gen(args, out),
        #[cfg(feature = "d_head")]
        "head-splits" => head::run_splits(args, out),
        #[cfg(feature = "d_head")]
        "req-splits" => head::run_req_splits(args, out),
        #[cfg(feature = "d_head")]
        "head-tcp" => head::run_tcp(args, out),
        #[cfg(feature = "d_response")]
        "resp-gen" => response::run_gen(args, out),
        #[cfg(feature = "d_response")]
        "chunk-lens" => response::run_chunk_lens(args, out),
        #[cfg(feature = "d_response")]
        "chunk-gen" => response::run_chunk_gen(args, out),
        #[cfg(feature = "d_response")]
        "resp-faults" => response::run_faults(args, out),
        #[cfg(feature = "d_response")]
        "status-all" => response::run_status(args, out),
        #[cfg(feature = "d_response")]
        "builder-gen" => response::run_builder(args, out),
        #[cfg(feature = "d_exchange")]
        "exchange-gen" => exchange::run_gen(args, out),
        #[cfg(feature = "d_exchange")]
        "upload-diskfull" => exchange::run_diskfull(args, out),
        #[cfg(feature = "d_exchange")]
        "diskfull-child" => exchange::run_diskfull_child(args, out),
        #[cfg(feature = "d_exchange")]
        "recv-body" => exchange::run_recv_body(args, out),
        #[cfg(feature = "d_exchange")]
        "limits" => exchange::run_limits(args, out),
        #[cfg(feature = "d_permit_race")]
        "permit-race" => permit_race::run_permit_race(args, out),
        #[cfg(feature = "d_server")]
        "tokens-enum" => server::run_tokens(args, out),
        #[cfg(feature = "d_server")]
        "server-stress" => server::run_stress(args, out),
        #[cfg(feature = "d_sse")]
        "sse-replay" => sse::run_replay(args, out),
        #[cfg(feature = "d_sse")]
        "sse-content" => sse::run_content(args, out),
        #[cfg(feature = "d_sse")]
        "sse-threads" => sse::run_threads(args, out),
        #[cfg(feature = "d_calendar")]
        "date-sweep" => calendar::run_sweep(args, out),
        #[cfg(feature = "d_logjson")]
        "json-scalars" => logjson::run_scalars(args, out),
        #[cfg(feature = "d_logjson")]
        "json-lines" => logjson::run_lines(args, out),
        #[cfg(feature = "d_logger")]
        "logger-threads" => logger::run_threads(args, out),
        #[cfg(feature = "d_logfiles")]
        "logwriter-run" => logfiles::run_writer(args, out),
        #[cfg(feature = "d_logfiles")]
        "logwriter-crash" => logfiles::run_crash(args, out),
        #[cfg(feature = "d_logfiles")]
        "logwriter-child" => logfiles::run_child(args),
        #[cfg(feature = "d_logfiles")]
        "fileset-ops" => logfiles::run_fileset(args, out),
        #[cfg(feature = "d_cookies")]
        "cookie-set" => cookies::run_set(args, out),
        #[cfg(feature = "d_cookies")]
        "cookie-req" => cookies::run_req(args, out),
        #[cfg(feature = "d_headers")]
        "headers-enum" => headers::run_enum(args, out),
        #[cfg(feature = "d_headers")]
        "ascii-ctors" => headers::run_ctors(args, out),
        #[cfg(feature = "d_framing")]
        "framing-gen" => framing::run_gen(args, out),
        #[cfg(feature = "d_framing")]
        "pipeline-gen" => framing::run_pipeline(args, out),
        other => {
            // (also reached for a driver whose module was left out of this build, see Cargo.toml [features])
            eprintln!("unknown driver {other} (or its module is not part of this build)");
            std::process::exit(2)
        }
    }
}
