//! C17: `json-scalars` renders every Unicode scalar value as a one-character string tag;
//! `json-lines` renders generated events of 0..20 tags (strings mixing all escape classes,
//! every integer width at its extremes, floats incl. NaN / infinities / subnormals,
//! booleans, null) through `LogEvent::write_jsonl`, and through the logging path
//! `log()` -> installed logger -> `write_jsonl`.
use crate::common::*;
use rand::prelude::*;
use serde_json::{json, Value};
use servlin::log::internal::*;
use servlin::log::*;

pub fn run_scalars(args: &Args, mut out: Out) {
    let lo = args.u64("lo", 0) as u32;
    let hi = args.u64("hi", 0x10_FFFF) as u32;
    let step = args.u64("step", 1) as u32; // sampling outside the class boundaries (quick tier)
    // one scenario per 4096 code points so that the trace can be sharded
    let mut sid = 0u64;
    let mut n_in_block = 4096u32;
    let boundary = |cp: u32| cp < 0x3000 || (0xD7F0..0xE010).contains(&cp) || (0xFFF0..0x10010).contains(&cp) || cp > 0x10_FFF0 || (0x1F600..0x1F650).contains(&cp) || (0xE0000..0xE0200).contains(&cp);
    for cp in lo..=hi {
        if step > 1 && !boundary(cp) && cp % step != 0 {
            continue;
        }
        let Some(c) = char::from_u32(cp) else { continue };
        if n_in_block >= 4096 {
            n_in_block = 0;
            sid += 1;
            out.ev(sid, "Reset", json!({}));
        }
        n_in_block += 1;
        let s = catch(|| format!("{}", TagValue::from(c.to_string()))).unwrap_or_else(|()| "<panic>".into());
        out.ev(sid, "Scalar", json!({"cp":cp,"out":cps(&s)}));
        // the same scalar as the value of the `&'static str` variant, which no conversion produces
        if cp < 0x3000 || boundary(cp) || cp % 97 == 0 {
            let st: &'static str = Box::leak(c.to_string().into_boxed_str());
            let s2 = catch(|| format!("{}", TagValue::Str(st))).unwrap_or_else(|()| "<panic>".into());
            n_in_block += 1;
            out.ev(sid, "Scalar", json!({"cp":cp,"out":cps(&s2),"variant":"Str"}));
        }
    }
    out.finish();
}


/// Every conversion into a tag list -- the tuples of 0 to 20 tags (one hand-written impl each), arrays, a single tag, a
/// vector -- keeps the tags and their order.  One `Line` event per conversion, judged like every other line.
fn conversion_lines(out: &mut Out, sid0: u64) -> u64 {
    let names: [&str; 20] = ["t01", "t02", "t03", "t04", "t05", "t06", "t07", "t08", "t09", "t10", "t11", "t12", "t13", "t14", "t15", "t16", "t17", "t18", "t19", "t20"];
    let mut sid = sid0;
    let level = Level::Info;
    let emit = |out: &mut Out, sid: u64, how: &str, n: usize, ev: Result<LogEvent, ()>| {
        let desc: Vec<Value> = (0..n).map(|i| json!({"name":cps(names[i]),"kind":"str","val":cps(&format!("v{i}")),"finite":true})).collect();
        let (text, panicked) = match ev {
            Ok(e) => {
                let mut line = Vec::new();
                let r = catch(|| e.write_jsonl(&mut line));
                (String::from_utf8_lossy(&line).to_string(), r.is_err())
            }
            Err(()) => (String::new(), true),
        };
        out.ev(sid, "Reset", json!({}));
        out.ev(sid, "Line", json!({"level":cps(&level.to_string()),"tags":desc,"out":cps(&text),"panic":panicked,"viaLog":false,"how":how}));
    };
    let v: Vec<Tag> = (0..20).map(|i| tag(names[i], format!("v{i}"))).collect();
    for n in 0..=20usize {
        sid += 1;
        let ev = catch(|| match n {
            0 => LogEvent::new(level, ()),
            1 => LogEvent::new(level, (v[0].clone(),)),
            2 => LogEvent::new(level, (v[0].clone(), v[1].clone(),)),
            3 => LogEvent::new(level, (v[0].clone(), v[1].clone(), v[2].clone(),)),
            4 => LogEvent::new(level, (v[0].clone(), v[1].clone(), v[2].clone(), v[3].clone(),)),
            5 => LogEvent::new(level, (v[0].clone(), v[1].clone(), v[2].clone(), v[3].clone(), v[4].clone(),)),
            6 => LogEvent::new(level, (v[0].clone(), v[1].clone(), v[2].clone(), v[3].clone(), v[4].clone(), v[5].clone(),)),
            7 => LogEvent::new(level, (v[0].clone(), v[1].clone(), v[2].clone(), v[3].clone(), v[4].clone(), v[5].clone(), v[6].clone(),)),
            8 => LogEvent::new(level, (v[0].clone(), v[1].clone(), v[2].clone(), v[3].clone(), v[4].clone(), v[5].clone(), v[6].clone(), v[7].clone(),)),
            9 => LogEvent::new(level, (v[0].clone(), v[1].clone(), v[2].clone(), v[3].clone(), v[4].clone(), v[5].clone(), v[6].clone(), v[7].clone(), v[8].clone(),)),
            10 => LogEvent::new(level, (v[0].clone(), v[1].clone(), v[2].clone(), v[3].clone(), v[4].clone(), v[5].clone(), v[6].clone(), v[7].clone(), v[8].clone(), v[9].clone(),)),
            11 => LogEvent::new(level, (v[0].clone(), v[1].clone(), v[2].clone(), v[3].clone(), v[4].clone(), v[5].clone(), v[6].clone(), v[7].clone(), v[8].clone(), v[9].clone(), v[10].clone(),)),
            12 => LogEvent::new(level, (v[0].clone(), v[1].clone(), v[2].clone(), v[3].clone(), v[4].clone(), v[5].clone(), v[6].clone(), v[7].clone(), v[8].clone(), v[9].clone(), v[10].clone(), v[11].clone(),)),
            13 => LogEvent::new(level, (v[0].clone(), v[1].clone(), v[2].clone(), v[3].clone(), v[4].clone(), v[5].clone(), v[6].clone(), v[7].clone(), v[8].clone(), v[9].clone(), v[10].clone(), v[11].clone(), v[12].clone(),)),
            14 => LogEvent::new(level, (v[0].clone(), v[1].clone(), v[2].clone(), v[3].clone(), v[4].clone(), v[5].clone(), v[6].clone(), v[7].clone(), v[8].clone(), v[9].clone(), v[10].clone(), v[11].clone(), v[12].clone(), v[13].clone(),)),
            15 => LogEvent::new(level, (v[0].clone(), v[1].clone(), v[2].clone(), v[3].clone(), v[4].clone(), v[5].clone(), v[6].clone(), v[7].clone(), v[8].clone(), v[9].clone(), v[10].clone(), v[11].clone(), v[12].clone(), v[13].clone(), v[14].clone(),)),
            16 => LogEvent::new(level, (v[0].clone(), v[1].clone(), v[2].clone(), v[3].clone(), v[4].clone(), v[5].clone(), v[6].clone(), v[7].clone(), v[8].clone(), v[9].clone(), v[10].clone(), v[11].clone(), v[12].clone(), v[13].clone(), v[14].clone(), v[15].clone(),)),
            17 => LogEvent::new(level, (v[0].clone(), v[1].clone(), v[2].clone(), v[3].clone(), v[4].clone(), v[5].clone(), v[6].clone(), v[7].clone(), v[8].clone(), v[9].clone(), v[10].clone(), v[11].clone(), v[12].clone(), v[13].clone(), v[14].clone(), v[15].clone(), v[16].clone(),)),
            18 => LogEvent::new(level, (v[0].clone(), v[1].clone(), v[2].clone(), v[3].clone(), v[4].clone(), v[5].clone(), v[6].clone(), v[7].clone(), v[8].clone(), v[9].clone(), v[10].clone(), v[11].clone(), v[12].clone(), v[13].clone(), v[14].clone(), v[15].clone(), v[16].clone(), v[17].clone(),)),
            19 => LogEvent::new(level, (v[0].clone(), v[1].clone(), v[2].clone(), v[3].clone(), v[4].clone(), v[5].clone(), v[6].clone(), v[7].clone(), v[8].clone(), v[9].clone(), v[10].clone(), v[11].clone(), v[12].clone(), v[13].clone(), v[14].clone(), v[15].clone(), v[16].clone(), v[17].clone(), v[18].clone(),)),
            20 => LogEvent::new(level, (v[0].clone(), v[1].clone(), v[2].clone(), v[3].clone(), v[4].clone(), v[5].clone(), v[6].clone(), v[7].clone(), v[8].clone(), v[9].clone(), v[10].clone(), v[11].clone(), v[12].clone(), v[13].clone(), v[14].clone(), v[15].clone(), v[16].clone(), v[17].clone(), v[18].clone(), v[19].clone(),)),
            _ => unreachable!(),
        });
        emit(out, sid, "tuple", n, ev);
    }
    sid += 1;
    emit(out, sid, "array3", 3, catch(|| LogEvent::new(level, [v[0].clone(), v[1].clone(), v[2].clone()])));
    sid += 1;
    emit(out, sid, "array7", 7, catch(|| LogEvent::new(level, [v[0].clone(), v[1].clone(), v[2].clone(), v[3].clone(), v[4].clone(), v[5].clone(), v[6].clone()])));
    sid += 1;
    emit(out, sid, "single", 1, catch(|| LogEvent::new(level, v[0].clone())));
    sid += 1;
    emit(out, sid, "vec", 20, catch(|| LogEvent::new(level, v.clone())));
    sid
}

pub fn run_lines(args: &Args, mut out: Out) {
    let n = args.u64("n", 500);
    let mut r = args.rng();
    // (tag names are strings like any other: quotes, backslashes, control characters, non-ASCII, the empty name)
    const NAMES: [&str; 16] = ["a", "b", "msg", "x_1", "http_method", "path", "code", "zz", "a\"b", "back\\slash", "line\nbreak", "tab\t", "", "\u{e9}t\u{e9}",
                               "sp ace", "x\":1,\"inj"];
    let classes: Vec<char> = vec![
        '"', '\\', '\n', '\r', '\t', '\0', '\u{1}', '\u{8}', '\u{c}', '\u{1f}', '\u{7f}', '\u{80}', '\u{9f}', 'a', 'Z', ' ', '/', '\u{e9}', '\u{200b}', '\u{2028}', '\u{2029}',
        '\u{feff}', '\u{fffd}', '\u{1F600}', '\u{10FFFF}', '{', '}', ',', ':', '\u{301}', '\u{e0001}',
    ];
    let (sender, receiver) = std::sync::mpsc::sync_channel::<LogEvent>(10);
    let guard = set_global_logger(sender);
    for sid in 1..=n {
        let mut tags: Vec<Tag> = vec![];
        let mut desc: Vec<Value> = vec![];
        let maxt = if r.gen_bool(0.1) { 20 } else { 5 };
        for _ in 0..r.gen_range(0..=maxt) {
            let name = *NAMES.choose(&mut r).unwrap();
            match r.gen_range(0..7) {
                0 | 1 => {
                    let s: String = (0..r.gen_range(0..12))
                        .map(|_| if r.gen_bool(0.7) { *classes.choose(&mut r).unwrap() } else { char::from_u32(r.gen_range(0..0x11_0000)).unwrap_or('x') })
                        .collect();
                    desc.push(json!({"name":cps(name),"kind":"str","val":cps(&s),"finite":true}));
                    // every way a string can become a tag value: the conversions and the `&'static str` variant itself
                    let v: TagValue = match r.gen_range(0..7) {
                        0 => TagValue::from(s),
                        1 => TagValue::from(s.as_str()),
                        2 => TagValue::from(&s),
                        3 => TagValue::from(std::borrow::Cow::Borrowed(s.as_str())),
                        4 => TagValue::from(std::path::Path::new(&s)),
                        _ => TagValue::Str(Box::leak(s.into_boxed_str())),
                    };
                    tags.push(Tag::new(name, v));
                }
                2 => {
                    let (t, text): (Tag, String) = match r.gen_range(0..14) {
                        0 => (tag(name, i8::MIN), i8::MIN.to_string()),
                        1 => (tag(name, u8::MAX), u8::MAX.to_string()),
                        2 => (tag(name, i64::MIN), i64::MIN.to_string()),
                        3 => (tag(name, u64::MAX), u64::MAX.to_string()),
                        4 => (tag(name, i128::MIN), i128::MIN.to_string()),
                        5 => (tag(name, u128::MAX), u128::MAX.to_string()),
                        6 => (tag(name, 0usize), "0".into()),
                        7 => (tag(name, i16::MIN), i16::MIN.to_string()),
                        8 => (tag(name, u16::MAX), u16::MAX.to_string()),
                        9 => (tag(name, i32::MIN), i32::MIN.to_string()),
                        10 => (tag(name, u32::MAX), u32::MAX.to_string()),
                        11 => (tag(name, -1i64), "-1".into()),
                        12 => (tag(name, i128::MAX), i128::MAX.to_string()),
                        _ => {
                            let v: i32 = r.gen();
                            (tag(name, v), v.to_string())
                        }
                    };
                    desc.push(json!({"name":cps(name),"kind":"int","val":cps(&text),"finite":true}));
                    tags.push(t);
                }
                3 => {
                    let v: f64 = *[0.0, -0.0, f64::MIN_POSITIVE / 2.0, f64::MAX, f64::NAN, f64::INFINITY, f64::NEG_INFINITY, 1.5, -2.25e-7, 1e21, f64::MIN_POSITIVE].choose(&mut r).unwrap();
                    desc.push(json!({"name":cps(name),"kind":"float","finite":v.is_finite(),"val":cps(&format!("{v}"))}));
                    tags.push(tag(name, v));
                }
                4 => {
                    let v: f32 = *[0.0f32, f32::MAX, f32::NAN, f32::NEG_INFINITY, 0.1, f32::INFINITY].choose(&mut r).unwrap();
                    desc.push(json!({"name":cps(name),"kind":"float","finite":v.is_finite(),"val":cps(&format!("{v}"))}));
                    tags.push(tag(name, v));
                }
                5 => {
                    let v: bool = r.gen();
                    desc.push(json!({"name":cps(name),"kind":"bool","val":[i32::from(v)],"finite":true}));
                    tags.push(tag(name, v));
                }
                _ => {
                    if r.gen_bool(0.5) {
                        let v: Option<u8> = None;
                        desc.push(json!({"name":cps(name),"kind":"null","val":[],"finite":true}));
                        tags.push(tag(name, v));
                    } else {
                        let v: Option<u8> = Some(7);
                        desc.push(json!({"name":cps(name),"kind":"int","val":cps("7"),"finite":true}));
                        tags.push(tag(name, v));
                    }
                }
            }
        }
        let level = *[Level::Error, Level::Info, Level::Debug].choose(&mut r).unwrap();
        if !out.wants(sid) {
            continue;
        }
        // half of the lines go through the logging path (the sort by fixed priority is stable and the
        // names used here have distinct priorities only for msg / http_method / path, so the expected
        // order is computed by the same stable rule on the descriptors)
        let via_log = guard.is_ok() && r.gen_bool(0.5);
        let (text, panicked, desc_used) = if via_log {
            let mut d = desc.clone();
            d.sort_by_key(|t| match String::from_utf8_lossy(&t["name"].as_array().unwrap().iter().map(|x| x.as_u64().unwrap() as u8).collect::<Vec<u8>>()).as_ref() {
                "msg" => 0u8,
                "http_method" => 1,
                "path" => 2,
                _ => 99,
            });
            let res = catch(|| {
                clear_thread_local_log_tags();
                // the event's time: mostly now, but also the first second of the epoch (numbers must not get leading zeros),
                // whole seconds, and far dates (epoch_ns is documented up to 2554)
                let epoch = std::time::SystemTime::UNIX_EPOCH;
                let dur = std::time::Duration::new;
                let when = match sid % 9 {
                    0 => epoch,
                    1 => epoch + dur(0, 1),
                    2 => epoch + dur(0, 999_999_999),
                    3 => epoch + dur(0, 1_000_000),
                    4 => epoch + dur(1, 0),
                    5 => epoch + dur(1_700_000_000, 0),
                    6 => epoch + dur(16_725_225_600, 123),
                    _ => std::time::SystemTime::now(),
                };
                log(when, level, tags.clone()).ok();
                let ev = receiver.recv().unwrap();
                let mut line = Vec::new();
                ev.write_jsonl(&mut line).unwrap();
                String::from_utf8_lossy(&line).to_string()
            });
            (res.clone().unwrap_or_default(), res.is_err(), d)
        } else {
            let res = catch(|| {
                let mut line = Vec::new();
                LogEvent::new(level, tags.clone()).write_jsonl(&mut line).unwrap();
                String::from_utf8_lossy(&line).to_string()
            });
            (res.clone().unwrap_or_default(), res.is_err(), desc.clone())
        };
        out.ev(sid, "Reset", json!({}));
        out.ev(sid, "Line", json!({"level":cps(&level.to_string()),"tags":desc_used,"out":cps(&text),"panic":panicked,"viaLog":via_log}));
    }
    drop(guard);
    conversion_lines(&mut out, n);
    out.finish();
}
