//! C12 / C13: `tokens-enum` (every take / drop / foreign-token sequence on a real
//! `TokenSet`), `server-stress` (random client schedules with every connection-ending kind
//! against a real server with hooks on; refill check; revocation at random moments and at
//! directed phases; stop signal, late connect).
//! The harness's own steps are stamped into servlin's hook log *before* they are performed.
use crate::common::*;
use rand::prelude::*;
use serde_json::{json, Value};
use servlin::internal::*;
use servlin::*;
use std::collections::{HashMap, HashSet};
use std::io::{Read, Write};
use std::future::Future;
use std::sync::{Arc, Condvar, Mutex};
use std::time::{Duration, Instant};

pub fn run_tokens(args: &Args, mut out: Out) {
    let depth = args.usize("depth", 6);
    // ops: 0 = try-take with timeout 0, 1 = drop oldest held, 2 = drop newest held,
    //      3 = make and drop a token that belongs to no set, 4 = blocking take when one is available,
    //      5 = the newest held token is dropped while its owner unwinds from a panic (how a connection task that
    //          panics returns its slot), 6 = the oldest held token is dropped on another thread
    let mut sid = 0u64;
    let mut hangs = 0u32; // blocking takes that never returned (a unit was lost): after 25 of them the point is made
    'all: for size in 1..=3usize {
        for d in 1..=depth {
            for code in 0..7usize.pow(d as u32) {
                if hangs >= 25 {
                    break 'all;
                }
                sid += 1;
                if !out.wants(sid) {
                    continue;
                }
                let mut set = Some(TokenSet::new(size));
                let mut hung = false;
                let mut held: Vec<Token> = vec![];
                let mut c = code;
                let mut steps = vec![];
                for _ in 0..d {
                    if hung {
                        break;
                    }
                    let set_ref = set.as_ref();
                    let op = c % 7;
                    c /= 7;
                    match op {
                        0 => {
                            let r = set_ref.unwrap().wait_token_timeout(Duration::ZERO);
                            let ok = r.is_ok();
                            if let Ok(t) = r {
                                held.push(t);
                            }
                            steps.push(json!({"op":"take","ok":ok,"had":false}));
                        }
                        1 => {
                            let had = !held.is_empty();
                            if had {
                                held.remove(0);
                            }
                            steps.push(json!({"op":"drop","had":had,"ok":false}));
                        }
                        2 => {
                            let had = held.pop().is_some();
                            steps.push(json!({"op":"drop","had":had,"ok":false}));
                        }
                        5 => {
                            let t = held.pop();
                            let had = t.is_some();
                            if let Some(t) = t {
                                let _ = catch(move || {
                                    let _held_by_the_panicking_owner = t;
                                    panic!("injected panic of a token owner");
                                });
                            }
                            steps.push(json!({"op":"drop","had":had,"ok":false}));
                        }
                        6 => {
                            let had = !held.is_empty();
                            if had {
                                let t = held.remove(0);
                                std::thread::spawn(move || drop(t)).join().unwrap();
                            }
                            steps.push(json!({"op":"drop","had":had,"ok":false}));
                        }
                        3 => {
                            drop(Token::new());
                            steps.push(json!({"op":"foreign","ok":false,"had":false}));
                        }
                        _ => {
                            // a blocking take is only attempted when the model says a unit is available
                            if held.len() < size {
                                // on a helper thread: a take that never returns is data ("hang"), not a stuck harness
                                let (tx, rx) = std::sync::mpsc::channel();
                                let mut owned = set.take().unwrap();
                                // the three ways to take a unit: the blocking call, the async call (what accept_loop uses),
                                // and the call with a real timeout
                                let route = (sid as usize + steps.len()) % 3;
                                std::thread::spawn(move || {
                                    let t = match route {
                                        0 => owned.wait_token(),
                                        1 => futures_lite::future::block_on(owned.async_wait_token()),
                                        _ => loop {
                                            if let Ok(t) = owned.wait_token_timeout(Duration::from_millis(50)) {
                                                break t;
                                            }
                                        },
                                    };
                                    let _ = tx.send((owned, t));
                                });
                                match rx.recv_timeout(Duration::from_millis(if hangs == 0 { 3000 } else { 300 })) {
                                    Ok((back, t)) => {
                                        set = Some(back);
                                        held.push(t);
                                        steps.push(json!({"op":"take","ok":true,"had":false}));
                                    }
                                    Err(_) => {
                                        steps.push(json!({"op":"take","ok":false,"had":false}));
                                        hung = true;
                                        hangs += 1;
                                    }
                                }
                            } else {
                                steps.push(json!({"op":"foreign","ok":false,"had":false}));
                            }
                        }
                    }
                }
                held.clear();
                if sid % 4096 == 0 {
                    take_panics();
                }
                let mut again = 0;
                let mut keep = vec![];
                if let Some(set) = set.as_ref() {
                    while let Ok(t) = set.wait_token_timeout(Duration::ZERO) {
                        keep.push(t);
                        again += 1;
                        if again > 10 {
                            break;
                        }
                    }
                }
                out.ev(sid, "Reset", json!({}));
                out.ev(sid, "Tokens", json!({"size":size,"steps":steps,"refill":again}));
            }
        }
    }
    // sizes at the edges of the narrower integer types: a pool of n units has n units (nothing wraps or truncates)
    for size in [255usize, 256, 257, 1000, 65_535, 65_536, 65_537] {
        sid += 1;
        if !out.wants(sid) {
            continue;
        }
        let got = catch(|| {
            let set = TokenSet::new(size);
            let mut held = vec![];
            while held.len() < size + 3 {
                match set.wait_token_timeout(Duration::ZERO) {
                    Ok(t) => held.push(t),
                    Err(_) => break,
                }
            }
            held.len()
        })
        .unwrap_or(0);
        out.ev(sid, "Reset", json!({}));
        out.ev(sid, "Tokens", json!({"size":size,"steps":[],"refill":got}));
    }
    out.finish();
}

struct Gates {
    open: Mutex<HashSet<String>>,
    all: Mutex<bool>,
    cv: Condvar,
}
impl Gates {
    fn wait(&self, key: &str) {
        let deadline = Instant::now() + Duration::from_secs(8);
        let mut g = self.open.lock().unwrap();
        while !g.contains(key) && !*self.all.lock().unwrap() {
            let (ng, _) = self.cv.wait_timeout(g, Duration::from_millis(20)).unwrap();
            g = ng;
            if Instant::now() > deadline {
                break;
            }
        }
    }
    fn open_key(&self, key: &str) {
        self.open.lock().unwrap().insert(key.to_string());
        self.cv.notify_all();
    }
    fn open_all(&self) {
        *self.all.lock().unwrap() = true;
        self.cv.notify_all();
    }
}

pub(crate) fn emit(kind: &'static str, a: u64, b: u64) {
    servlin::verif::emit(kind, a, b);
}
pub(crate) fn count(kind: &str) -> usize {
    servlin::verif::snapshot().iter().filter(|r| r.kind == kind).count()
}
/// The accept loop is parked in `accept()` (it holds a token and waits for a connection).
fn accept_loop_accepting() -> bool {
    servlin::verif::snapshot().iter().rev().find(|r| r.kind.starts_with("Acc")).map_or(false, |r| r.kind == "AccAccepting")
}
pub(crate) fn wait_until(deadline_s: u64, f: impl Fn() -> bool) -> bool {
    let deadline = Instant::now() + Duration::from_secs(deadline_s);
    while !f() {
        if Instant::now() > deadline {
            missed_deadline();
            return false;
        }
        std::thread::sleep(Duration::from_micros(500));
    }
    true
}

struct Client {
    sock: Option<std::net::TcpStream>,
    port: u16,
    sent: u32,
    outstanding: bool,
}

pub fn run_stress(args: &Args, mut out: Out) {
    let runs = args.u64("runs", 60);
    let emfile_pct = args.u64("emfile", 0);
    let mut r = args.rng();
    if emfile_pct > 0 {
        // a small descriptor limit makes "too many open files" cheap to provoke (this process only)
        let lim = libc::rlimit { rlim_cur: 400, rlim_max: 400 };
        unsafe { libc::setrlimit(libc::RLIMIT_NOFILE, &lim) };
    }
    safina::timer::start_timer_thread();
    let executor = safina::executor::Executor::new(2, 16).unwrap();
    for sid in 1..=runs {
        let mut rr = StdRng::seed_from_u64(r.gen());
        if !out.wants(sid) {
            continue;
        }
        if give_up() {
            break;
        }
        let r = &mut rr;
        let max: usize = r.gen_range(1..=4);
        let nclients = max * r.gen_range(2..=3);
        let gates = Arc::new(Gates { open: Mutex::new(HashSet::new()), all: Mutex::new(false), cv: Condvar::new() });
        let g2 = gates.clone();
        let handler = move |req: Request| {
            let path = req.url().path().to_string();
            // path = /c{c}/k{k}/{kind}
            let parts: Vec<&str> = path.split('/').collect();
            let k: u64 = parts.get(2).and_then(|s| s[1..].parse().ok()).unwrap_or(0);
            let kind = parts.get(3).copied().unwrap_or("ok").to_string();
            // b = request number * 10 + 1 if the handler will drop the connection (no response is owed then)
            servlin::verif::emit("HEnter", u64::from(req.remote_addr.port()), k * 10 + u64::from(kind == "drop"));
            g2.wait(&format!("/{}/{}", parts.get(1).unwrap_or(&""), parts.get(2).unwrap_or(&"")));
            match kind.as_str() {
                "err" => Response::text(404, "nope"),
                "five" => Response::text(503, "busy"),
                "panic" => panic!("scripted handler panic"),
                "drop" => Response::drop_connection(),
                "big" => Response::new(200).with_body(vec![b'x'; 300_000]),
                _ => Response::text(200, "ok"),
            }
        };
        servlin::verif::start();
        // One run in four: the application's logger has stopped (its receiver is gone), so every logging call inside the
        // server returns an error.  Whatever the server wanted to report, its shutdown contract is unchanged.
        let dead_logger = if sid % 4 == 2 {
            let (s, r) = std::sync::mpsc::sync_channel::<servlin::log::internal::LogEvent>(1);
            drop(r);
            servlin::log::set_global_logger(s).ok()
        } else {
            None
        };
        let permit = permit::Permit::new();
        let cache = temp_dir::TempDir::new().unwrap();
        // (the builder's setters are called in varying order: each sets its own field and leaves the others alone)
        let any_port = std::net::SocketAddr::from(([127, 0, 0, 1], 0));
        let builder = match sid % 3 {
            0 => HttpServerBuilder::new().max_conns(max).small_body_len(1000).receive_large_bodies(cache.path()).permit(permit.new_sub()),
            1 => HttpServerBuilder::new().listen_addr(any_port).permit(permit.new_sub()).receive_large_bodies(cache.path()).small_body_len(1000).max_conns(max),
            _ => HttpServerBuilder::new().permit(permit.new_sub()).max_conns(max).receive_large_bodies(cache.path()).small_body_len(1000).listen_addr(any_port),
        };
        let (addr, stopped) = executor.block_on(builder.spawn(handler)).unwrap();
        let mut clients: Vec<Client> = (0..nclients).map(|_| Client { sock: None, port: 0, sent: 0, outstanding: false }).collect();
        let mut aborted: Vec<u16> = vec![];
        let connect = |clients: &mut Vec<Client>, c: usize| {
            emit("ClientConnect", c as u64, 0);
            match std::net::TcpStream::connect_timeout(&addr, Duration::from_millis(1000)) {
                Ok(s) => {
                    let port = s.local_addr().unwrap().port();
                    emit("ClientConnected", c as u64, u64::from(port));
                    s.set_nodelay(true).unwrap();
                    clients[c] = Client { sock: Some(s), port, sent: 0, outstanding: false };
                }
                Err(_) => emit("ClientConnectFailed", c as u64, 0),
            }
        };
        let nsteps = r.gen_range(4..30);
        let emfile_at = if r.gen_range(0..100) < emfile_pct { r.gen_range(0..nsteps) } else { usize::MAX };
        let mut held_fds: Option<Vec<std::fs::File>> = None;
        for step in 0..nsteps {
            if step == emfile_at {
                // ---- C12: failures to accept a connection never consume a slot ----
                // exhaust the descriptor table, leave room for exactly one client socket, connect: accept() fails (EMFILE)
                // (only meaningful while the loop is parked in accept(); with every slot in use it waits for a token instead)
                std::thread::sleep(Duration::from_millis(2));
                if let Some(c) = (0..nclients).find(|&c| clients[c].sock.is_none()).filter(|_| accept_loop_accepting()) {
                    let errs_before = count("AccAcceptErr");
                    let acc_before = count("AccAccepted");
                    emit("FdExhaustBegin", 0, 0);
                    let mut dummies = vec![];
                    while let Ok(f) = std::fs::File::open("/dev/null") {
                        dummies.push(f);
                        if dummies.len() > 2000 {
                            break;
                        }
                    }
                    dummies.pop();
                    connect(&mut clients, c);
                    let saw_err = clients[c].sock.is_some() && wait_until(3, || count("AccAcceptErr") > errs_before || count("AccAccepted") > acc_before);
                    if saw_err && r.gen_bool(0.25) {
                        // the descriptor table stays exhausted: accept() fails again and again (the loop pauses after each
                        // failure); after the fifth failure the permit is revoked while it is still exhausted -- the stop
                        // signal must not depend on how long the loop has been failing
                        wait_until(8, || count("AccAcceptErr") >= errs_before + 5 || count("AccAccepted") > acc_before);
                        held_fds = Some(dummies);
                        emit("FdExhaustHeld", 0, 0);
                        break;
                    }
                    drop(dummies);
                    emit("FdExhaustEnd", u64::from(saw_err), 0);
                    if clients[c].sock.is_some() {
                        // the connection is still in the backlog: once descriptors are free again it is accepted
                        wait_until(3, || count("AccAccepted") > acc_before || count("AccRevokedExit") + count("AccRevokedInWait") > 0);
                    }
                }
                continue;
            }
            let c = r.gen_range(0..nclients);
            match r.gen_range(0..10) {
                0..=2 if clients[c].sock.is_none() => connect(&mut clients, c),
                3..=5 if clients[c].sock.is_some() => {
                    clients[c].sent += 1;
                    let k = clients[c].sent;
                    let kind = *["ok", "ok", "ok", "err", "five", "panic", "drop", "big", "malformed", "partial-head", "partial-upload", "partial-small"].choose(r).unwrap();
                    emit("ClientSend", c as u64, u64::from(k));
                    let msg: Vec<u8> = match kind {
                        "malformed" => format!("GET /c{c}/k{k}/x HTTP/1.1\r\nbad header line\r\n\r\n").into_bytes(),
                        "partial-head" => format!("GET /c{c}/k{k}/ok HTT").into_bytes(),
                        "partial-upload" => format!("PUT /c{c}/k{k}/ok HTTP/1.1\r\ncontent-length: 5000\r\n\r\n{}", "u".repeat(1200)).into_bytes(),
                        // a small declared body (read into memory without asking the handler) of which only a part arrives
                        "partial-small" => format!("PUT /c{c}/k{k}/ok HTTP/1.1\r\ncontent-length: 10\r\n\r\nabc").into_bytes(),
                        _ => format!("GET /c{c}/k{k}/{kind} HTTP/1.1\r\n\r\n").into_bytes(),
                    };
                    clients[c].outstanding = true;
                    let _ = clients[c].sock.as_mut().unwrap().write_all(&msg);
                }
                6 | 7 if clients[c].sent > 0 => {
                    emit("GateOpen", c as u64, u64::from(clients[c].sent));
                    for k in 1..=clients[c].sent {
                        gates.open_key(&format!("/c{c}/k{k}"));
                    }
                }
                8 if clients[c].sock.is_some() => {
                    emit("ClientClose", c as u64, u64::from(clients[c].port));
                    aborted.push(clients[c].port);
                    clients[c].sock = None; // abrupt close: possibly mid-request / mid-upload
                }
                _ => {}
            }
            if r.gen_bool(0.5) {
                std::thread::sleep(Duration::from_micros(r.gen_range(0..3000)));
            }
        }
        // ---- C12 at the socket level: a connection that has ended no longer holds a socket.  The hook log says which
        // connections have ended; a client that still has its end open keeps writing single bytes: once the server's end
        // is closed the second or third write fails (reset), whereas a server that keeps the socket in some task of its
        // own goes on swallowing them ----
        {
            let ended: HashSet<u64> = servlin::verif::snapshot().iter().filter(|r| r.kind == "ConnEnd").map(|r| r.a).collect();
            let mut probed = 0;
            for cl in clients.iter_mut() {
                if probed >= 3 || !ended.contains(&u64::from(cl.port)) {
                    continue;
                }
                let Some(sock) = cl.sock.as_mut() else { continue };
                probed += 1;
                let deadline = Instant::now() + Duration::from_secs(3);
                let mut closed = false;
                while Instant::now() < deadline {
                    if sock.write_all(b"x").is_err() {
                        closed = true;
                        break;
                    }
                    std::thread::sleep(Duration::from_millis(15));
                }
                emit(if closed { "EndedSocketClosed" } else { "EndedSocketStillOpen" }, 0, u64::from(cl.port));
                let _ = sock.shutdown(std::net::Shutdown::Both);
                cl.sock = None;
            }
        }
        let do_refill = held_fds.is_none() && r.gen_bool(0.5);
        let t_phase = Instant::now();
        if do_refill {
            // ---- C12: after any history the full configured number can be serviced simultaneously again ----
            gates.open_all();
            for c in clients.iter_mut() {
                if let Some(s) = c.sock.take() {
                    emit("ClientClose", 0, u64::from(c.port));
                    aborted.push(c.port);
                    let _ = s.shutdown(std::net::Shutdown::Both);
                }
            }
            wait_until(10, || count("ConnEnd") >= count("ConnBegin") && count("ConnBegin") + count("AccRevokedAfterAccept") >= count("AccAccepted"));
            // a connection whose client gave up while it was still in the listen backlog is accepted (and ended) as
            // soon as a slot is free: wait for every connection that was ever established, so that none of them
            // turns up in the middle of the measurement
            wait_until(10, || {
                let recs = servlin::verif::snapshot();
                recs.iter().filter(|r| r.kind == "ClientConnected").all(|c| recs.iter().any(|e| e.kind == "ConnEnd" && e.a == c.b))
            });
            *gates.all.lock().unwrap() = false;
            let before = count("HEnter");
            let mut refill_socks = vec![];
            for j in 0..max {
                emit("ClientConnect", (100 + j) as u64, 0);
                match std::net::TcpStream::connect_timeout(&addr, Duration::from_millis(1000)) {
                    Ok(mut s) => {
                        emit("ClientConnected", (100 + j) as u64, u64::from(s.local_addr().unwrap().port()));
                        let _ = s.write_all(format!("GET /r{j}/k1/ok HTTP/1.1\r\n\r\n").as_bytes());
                        refill_socks.push(s);
                    }
                    Err(_) => emit("ClientConnectFailed", (100 + j) as u64, 0),
                }
            }
            wait_until(10, || count("HEnter") >= before + max);
            emit("RefillOk", (count("HEnter") - before) as u64, 0);
            gates.open_all();
            for mut s in refill_socks {
                let _ = s.shutdown(std::net::Shutdown::Write);
                let _ = s.set_read_timeout(Some(Duration::from_secs(5)));
                let mut b = Vec::new();
                let _ = s.read_to_end(&mut b);
            }
            wait_until(10, || count("ConnEnd") >= count("ConnBegin"));
        }
        let d_refill = t_phase.elapsed();
        // ---- C13: revocation, at whatever moment the history has reached ----
        // The stop signal is awaited through a waker that connects to the server's address from INSIDE the delivery of the
        // signal (the sender wakes the receiver within send()): "releases its listening socket and only then delivers the
        // stopped signal" is probed at that very instant, not after this thread has woken up.
        let mut stopped = stopped;
        let probe = Arc::new(SignalProbe { addr, result: Mutex::new(None), thread: std::thread::current() });
        let probe_waker = std::task::Waker::from(probe.clone());
        let mut stop_fut = Box::pin(stopped.async_recv());
        let mut stop_cx = std::task::Context::from_waker(&probe_waker);
        let mut stop_seen = match stop_fut.as_mut().poll(&mut stop_cx) {
            std::task::Poll::Ready(r) => Some(r.is_ok()),
            std::task::Poll::Pending => None,
        };
        emit("RevokeBegin", 0, 0);
        drop(permit);
        emit("RevokeDone", 0, 0);
        let stop_deadline = Instant::now() + Duration::from_secs(5);
        while stop_seen.is_none() && Instant::now() < stop_deadline {
            match stop_fut.as_mut().poll(&mut stop_cx) {
                std::task::Poll::Ready(r) => stop_seen = Some(r.is_ok()),
                std::task::Poll::Pending => std::thread::park_timeout(Duration::from_millis(20)),
            }
        }
        match stop_seen {
            Some(true) => emit("StoppedReceived", 0, 0),
            _ => emit("StopTimeout", 0, 0),
        }
        drop(stop_fut);
        match *probe.result.lock().unwrap() {
            Some(true) => emit("SignalConnectAccepted", 0, 0),
            Some(false) => emit("SignalConnectRefused", 0, 0),
            None => {}
        }
        drop(held_fds.take());
        // a connect after the stop signal must not be served
        emit("LateConnect", 0, 0);
        match std::net::TcpStream::connect_timeout(&addr, Duration::from_millis(300)) {
            Ok(_) => emit("LateConnectAccepted", 0, 0),
            Err(_) => emit("LateConnectRefused", 0, 0),
        }
        // ---- C13: every open connection serves at most one further request and is then closed ----
        // each connection that is still open gets up to three more requests, one after the other (the hook log
        // shows how many of them were read; ServerSteps!AtMostOneMore / mustEnd judge it)
        gates.open_all();
        for (c, cl) in clients.iter_mut().enumerate() {
            let Some(sock) = cl.sock.as_mut() else { continue };
            let _ = sock.set_read_timeout(Some(Duration::from_millis(120)));
            for _ in 0..3 {
                cl.sent += 1;
                let k = cl.sent;
                emit("ClientSend", c as u64, u64::from(k));
                if sock.write_all(format!("GET /c{c}/k{k}/ok HTTP/1.1\r\n\r\n").as_bytes()).is_err() {
                    break;
                }
                // wait for this request's answer, the end of the stream, or (a connection stuck in an earlier
                // partial request) the time-out
                let mut got = Vec::new();
                let mut buf = [0u8; 4096];
                let mut closed = false;
                loop {
                    match sock.read(&mut buf) {
                        Ok(0) => {
                            closed = true;
                            break;
                        }
                        Ok(n) => {
                            got.extend_from_slice(&buf[..n]);
                            if got.ends_with(b"\r\n\r\nok") {
                                break;
                            }
                        }
                        Err(_) => {
                            closed = true;
                            break;
                        }
                    }
                }
                if closed {
                    break;
                }
            }
        }
        let d_probe = t_phase.elapsed();
        // wind down: open all gates, close all clients, wait for the connection tasks to finish
        gates.open_all();
        for c in clients.iter_mut() {
            if let Some(mut s) = c.sock.take() {
                let _ = s.shutdown(std::net::Shutdown::Write);
                let _ = s.set_read_timeout(Some(Duration::from_secs(5)));
                let mut b = Vec::new();
                let _ = s.read_to_end(&mut b);
            }
        }
        wait_until(10, || count("ConnEnd") >= count("ConnBegin") && count("ConnBegin") + count("AccRevokedAfterAccept") >= count("AccAccepted"));
        // every ConnEnd is followed by the return of that connection's token
        let returns_expected = || count("ConnEnd") + count("AccAcceptErr") + count("AccRevokedExit") + count("AccRevokedAfterAccept");
        wait_until(5, || count("TokenReturn") >= returns_expected());
        std::thread::sleep(Duration::from_millis(20));
        if std::env::var_os("VERIF_LOUD").is_some() {
            eprintln!("sid {sid}: refill {:?} revoke+probe {:?} wind-down {:?}", d_refill, d_probe - d_refill, t_phase.elapsed() - d_probe);
        }
        drop(dead_logger);
        let recs = servlin::verif::take();
        out.ev(sid, "Reset", json!({"max": max, "clients": nclients, "refill": do_refill, "deadLogger": sid % 4 == 2}));
        for rec in recs {
            out.ev(sid, rec.kind, json!({"a": rec.a, "b": rec.b, "seq": rec.seq}));
        }
        out.ev(sid, "Quiesce", json!({"a":0,"b":0,"aborted": aborted}));
    }
    take_panics();
    out.finish();
}

#[allow(dead_code)]
fn unused(_: HashMap<u8, u8>, _: Value) {}


/// Waker of the stop signal's receiver: runs inside the sender's send()/drop and connects to the server's address there.
struct SignalProbe {
    addr: std::net::SocketAddr,
    result: Mutex<Option<bool>>,
    thread: std::thread::Thread,
}
impl std::task::Wake for SignalProbe {
    fn wake(self: Arc<Self>) {
        let mut g = self.result.lock().unwrap();
        if g.is_none() {
            *g = Some(std::net::TcpStream::connect_timeout(&self.addr, Duration::from_millis(300)).is_ok());
        }
        drop(g);
        self.thread.unpark();
    }
}
