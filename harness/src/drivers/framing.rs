//! C03 / C14 / C15 (request side): `framing-gen` feeds generated header multisets through
//! `read_http_request` and logs what the request exposes; `pipeline-gen` concatenates
//! 1..8 messages on one stream, reads them back under random fragmentation and logs the
//! sequence of requests, bodies and the final error.
use crate::common::*;
use fixed_buffer::FixedBuf;
use futures_lite::AsyncReadExt;
use rand::prelude::*;
use serde_json::{json, Value};
use servlin::internal::*;
#[allow(unused_imports)]
use servlin::*;

const CLS: [&str; 13] =
    ["0", "5", "+5", "-1", "a", "", "05", "5, 5", "18446744073709551615", "18446744073709551616", "007", "12", "5 5"];
const TES: [&str; 11] =
    ["chunked", "gzip", "gzip, chunked", "chunked, gzip", "x", "Chunked", " gzip ,chunked ", ",", "gzip,gzip", "identity", "gzip, chunked, x"];
const CTS: [&str; 24] = [
    "text/plain", "text/plain; charset=utf-8", "application/json", "Text/plain", "x/y", "", "image/svg+xml;q",
    "multipart/form-data; boundary=x", "application/octet-stream", "text/css", "text/csv", "text/event-stream",
    "application/x-www-form-urlencoded", "image/gif", "text/html", "text/javascript", "image/jpeg", "text/markdown",
    "application/pdf", "image/png", "image/svg+xml", "text/html ; charset=x", "application/jsonx", "text/plain;",
];
const COOKIES: [&str; 12] =
    ["a=b", "a=b; c=d", "a=1; a=2", " a=b ;; ", "x", "k=v=w", "a=", "=v", "a=b; bad", "q=\"x y\"", ";", "a = b"];

pub fn request_json(req: &Request, left: usize) -> Value {
    let (body, len) = match &req.body {
        RequestBody::PendingKnown(l) => ("Known", l.to_string()),
        RequestBody::PendingUnknown => ("Unknown", String::new()),
        _ => ("Empty", String::new()),
    };
    let (ctv, ctraw) = match &req.content_type {
        ContentType::String(s) => ("String".to_string(), s.clone()),
        other => (format!("{other:?}"), String::new()),
    };
    let mut ck: Vec<Value> = req.cookies.iter().map(|(k, v)| json!([ints(k.as_bytes()), ints(v.as_bytes())])).collect();
    ck.sort_by_key(|v| v.to_string());
    json!({"k":"ok","body":body,"len":ints(len.as_bytes()),"chunked":req.chunked,"gzip":req.gzip,
        "expect":req.expect_continue,"ctype":{"v":ctv,"raw":ints(ctraw.as_bytes())},"cookies":ck,
        "headers": req.headers.iter().map(|f| json!([ints(f.name.as_bytes()), ints(f.value.as_bytes())])).collect::<Vec<_>>(),
        "kind":"", "left": left})
}

fn one(out: &mut Out, sid: u64, method: &str, fields: &[(String, String)], rng: &mut StdRng) {
    if !out.wants(sid) {
        return;
    }
    let mut msg = format!("{method} /p HTTP/1.1\r\n");
    for (n, v) in fields {
        msg.push_str(&format!("{n}: {v}\r\n"));
    }
    msg.push_str("\r\nBODYBYTES");
    let cuts = random_cuts(rng, msg.len());
    let mut buf: FixedBuf<8192> = FixedBuf::new();
    let mut rd = ScriptedReader::with_cuts(msg.as_bytes().to_vec(), &cuts);
    let res = catch(|| poll_budget(read_http_request(localhost(1), &mut buf, &mut rd), msg.len() + 20));
    let outv = match res {
        Err(()) => json!({"k":"Panic","kind":""}),
        Ok(None) => json!({"k":"Hang","kind":""}),
        Ok(Some(Err(e))) => json!({"k":"err","kind":variant_name(&e)}),
        Ok(Some(Ok(req))) => request_json(&req, buf.len() + rd.unread()),
    };
    out.ev(sid, "Reset", json!({}));
    out.ev(
        sid,
        "Req",
        json!({"method":ints(method.as_bytes()),
               "fields":fields.iter().map(|(n, v)| json!([ints(n.as_bytes()), ints(v.trim_matches(|c| c == ' ' || c == '\t').as_bytes())])).collect::<Vec<_>>(),
               "out":outv}),
    );
}

pub fn run_gen(args: &Args, mut out: Out) {
    let n = args.usize("n", 1000);
    let cross = args.usize("cross", 1);
    let mut r = args.rng();
    let mut sid = 0u64;
    if cross > 0 {
        // full cross product for single messages
        let mut cl_sets: Vec<Vec<&str>> = vec![vec![]];
        for a in CLS {
            cl_sets.push(vec![a]);
        }
        for a in ["5", "0", "12", "a", "05"] {
            for b in ["5", "0", "12", "+5", "05"] {
                cl_sets.push(vec![a, b]);
            }
        }
        let mut te_sets: Vec<Vec<&str>> = vec![vec![]];
        for a in TES {
            te_sets.push(vec![a]);
        }
        for a in ["chunked", "gzip", "x", ""] {
            for b in ["chunked", "gzip", "x", ""] {
                te_sets.push(vec![a, b]);
            }
        }
        let expects: [Option<&str>; 3] = [None, Some("100-continue"), Some("other")];
        for method in ["GET", "POST", "PUT", "M"] {
            for cl in &cl_sets {
                for te in &te_sets {
                    for ex in expects {
                        sid += 1;
                        let mut fields: Vec<(String, String)> = vec![];
                        for (i, v) in cl.iter().enumerate() {
                            fields.push(((if i == 0 { "content-length" } else { "Content-Length" }).into(), (*v).into()));
                        }
                        for (i, v) in te.iter().enumerate() {
                            fields.push(((if i == 0 { "Transfer-Encoding" } else { "transfer-encoding" }).into(), (*v).into()));
                        }
                        if let Some(e) = ex {
                            fields.push(("expect".into(), e.into()));
                        }
                        // a content type, a cookie and an extra field ride along; they must not matter
                        if sid % 3 == 0 {
                            fields.push(("content-type".into(), CTS[(sid as usize / 3) % CTS.len()].into()));
                        }
                        if sid % 5 == 0 {
                            fields.push(("cookie".into(), COOKIES[(sid as usize / 5) % COOKIES.len()].into()));
                        }
                        fields.push(("x-a".into(), format!("v{sid}")));
                        if sid % 2 == 0 {
                            let fl = fields.len().max(1);
                            fields.rotate_left((sid as usize / 2) % fl);
                        }
                        one(&mut out, sid, method, &fields, &mut r);
                    }
                }
            }
        }
    }
    for _ in 0..n {
        sid += 1;
        let method = *["GET", "POST", "PUT", "M", "DELETE", "post"].choose(&mut r).unwrap();
        let mut fields: Vec<(String, String)> = vec![];
        for _ in 0..*[0, 0, 1, 1, 2].choose(&mut r).unwrap() {
            fields.push((["content-length", "Content-Length"].choose(&mut r).unwrap().to_string(), CLS.choose(&mut r).unwrap().to_string()));
        }
        for _ in 0..*[0, 0, 0, 1, 2].choose(&mut r).unwrap() {
            fields.push((["transfer-encoding", "Transfer-Encoding"].choose(&mut r).unwrap().to_string(), TES.choose(&mut r).unwrap().to_string()));
        }
        if r.gen_bool(0.3) {
            fields.push(("Expect".into(), ["100-continue", "other", "100-Continue"].choose(&mut r).unwrap().to_string()));
        }
        for _ in 0..*[0, 0, 1, 1, 2].choose(&mut r).unwrap() {
            fields.push((["content-type", "Content-Type"].choose(&mut r).unwrap().to_string(), CTS.choose(&mut r).unwrap().to_string()));
        }
        for _ in 0..*[0, 0, 1, 2, 3].choose(&mut r).unwrap() {
            fields.push((["cookie", "Cookie"].choose(&mut r).unwrap().to_string(), COOKIES.choose(&mut r).unwrap().to_string()));
        }
        for k in 0..r.gen_range(0..9) {
            // (among the bystanders: names that merely begin or end like a framing field's name)
            fields.push((["x-a", "X-A", "x-b", "Accept", "host", "content-length-hint", "x-content-length", "transfer-encodings", "cookies", "cookie2",
                          "expectation", "content-typex", "x-expect"].choose(&mut r).unwrap().to_string(), format!("v{k}")));
        }
        fields.shuffle(&mut r);
        one(&mut out, sid, method, &fields, &mut r);
    }
    out.finish();
}

/// One message of a pipelined wire.
struct Msg {
    method: &'static str,
    fields: Vec<(String, String)>,
    body: Vec<u8>,
}

/// One pipelined wire read through `HttpConn` over loopback; the events have the shape of `run_pipeline`'s.
fn via_conn(out: &mut Out, sid: u64, wire: &[u8], listener: &std::net::TcpListener) {
    use std::io::Write as _;
    let mut client = std::net::TcpStream::connect(listener.local_addr().unwrap()).unwrap();
    client.write_all(wire).unwrap();
    client.shutdown(std::net::Shutdown::Write).unwrap();
    let (s, peer) = listener.accept().unwrap();
    let mut conn = HttpConn::new(peer, async_net::TcpStream::try_from(s).unwrap());
    loop {
        let res = catch(|| futures_lite::future::block_on(conn.read_request()));
        let req = match res {
            Err(()) => {
                out.ev(sid, "Err", json!({"kind":"Panic"}));
                break;
            }
            Ok(Err(e)) => {
                out.ev(sid, "Err", json!({"kind": variant_name(&e)}));
                break;
            }
            Ok(Ok(req)) => req,
        };
        let path = req.url.path().to_string();
        let idx: u64 = path.strip_prefix("/m").and_then(|s| s.parse().ok()).unwrap_or(0);
        let mut ev = request_json(&req, 0);
        ev["idx"] = json!(idx);
        ev["path"] = ints(path.as_bytes());
        ev["method"] = ints(req.method.as_bytes());
        out.ev(sid, "Req", ev);
        if req.chunked || req.gzip {
            out.ev(sid, "Refuse", json!({}));
            break;
        }
        let known = matches!(req.body, RequestBody::PendingKnown(_));
        let unknown = matches!(req.body, RequestBody::PendingUnknown);
        if known || unknown {
            match catch(|| futures_lite::future::block_on(conn.read_body_to_vec())) {
                Ok(Ok(RequestBody::Vec(v))) => out.ev(sid, "Body", json!({"len": v.len(), "dig": digest(&v)})),
                Ok(Err(e)) => {
                    out.ev(sid, "Err", json!({"kind": variant_name(&e)}));
                    break;
                }
                _ => {
                    out.ev(sid, "Err", json!({"kind":"Panic"}));
                    break;
                }
            }
            if unknown {
                out.ev(sid, "Eof", json!({}));
                break;
            }
        }
        // the request is answered, so that the connection is ready for the next one
        if catch(|| futures_lite::future::block_on(conn.write_response(&Response::new(200)))).map_or(true, |r| r.is_err()) {
            out.ev(sid, "Err", json!({"kind":"Panic"}));
            break;
        }
    }
    out.ev(sid, "End", json!({"unread": 0}));
    // the client goes first and with a reset (SO_LINGER 0): no socket is left in TIME_WAIT, so hundreds of thousands of
    // wires do not run out of ephemeral ports
    {
        use std::os::fd::AsRawFd;
        let lg = libc::linger { l_onoff: 1, l_linger: 0 };
        unsafe {
            libc::setsockopt(client.as_raw_fd(), libc::SOL_SOCKET, libc::SO_LINGER, std::ptr::addr_of!(lg).cast(), std::mem::size_of::<libc::linger>() as u32);
        }
    }
    drop(client);
    drop(conn);
}

pub fn run_pipeline(args: &Args, mut out: Out) {
    let conn_listener = std::net::TcpListener::bind("127.0.0.1:0").unwrap();
    let n = args.usize("n", 1000);
    let mut r = args.rng();
    for sid in 1..=(n as u64) {
        let k = r.gen_range(1..=8);
        let mut msgs: Vec<Msg> = vec![];
        for i in 0..k {
            let last = i + 1 == k;
            let smuggle = b"GET /smuggled HTTP/1.1\r\n\r\n".to_vec();
            let mut body: Vec<u8> = match r.gen_range(0..4) {
                0 => vec![],
                1 => smuggle.clone(),
                2 => (0..r.gen_range(1..40)).map(|_| r.gen()).collect(),
                _ => {
                    let mut b: Vec<u8> = (0..r.gen_range(0..10)).map(|_| r.gen_range(97..123)).collect();
                    b.extend(&smuggle);
                    b
                }
            };
            let mut fields: Vec<(String, String)> = vec![];
            let mut method = *["GET", "M", "DELETE", "POST", "PUT"].choose(&mut r).unwrap();
            match r.gen_range(0..12) {
                // valid: single content-length = body length
                0..=5 => fields.push(("content-length".into(), body.len().to_string())),
                // bodiless
                6 | 7 => {
                    method = *["GET", "M", "DELETE"].choose(&mut r).unwrap();
                    body.clear();
                }
                // unknown length: runs to the end of the stream
                8 if last => {
                    method = *["POST", "PUT"].choose(&mut r).unwrap();
                }
                // ambiguous / invalid framing
                8 | 9 => {
                    fields.push(("content-length".into(), body.len().to_string()));
                    fields.push((["content-length", "Content-Length"].choose(&mut r).unwrap().to_string(), ["0", "1", "5"].choose(&mut r).unwrap().to_string()));
                }
                10 => fields.push(("content-length".into(), ["+0", "-1", "a", "", "18446744073709551616", "1 1"].choose(&mut r).unwrap().to_string())),
                _ => {
                    fields.push(("transfer-encoding".into(), ["chunked", "x", "chunked, gzip", "gzip"].choose(&mut r).unwrap().to_string()));
                    if r.gen_bool(0.5) {
                        fields.push(("Transfer-Encoding".into(), "chunked".into()));
                    }
                    if r.gen_bool(0.5) {
                        fields.push(("content-length".into(), body.len().to_string()));
                    }
                }
            }
            if r.gen_bool(0.3) {
                fields.push(("x-pad".into(), "p".repeat(r.gen_range(0..30))));
            }
            fields.shuffle(&mut r);
            msgs.push(Msg { method, fields, body });
        }
        // serialise
        let mut wire: Vec<u8> = vec![];
        let mut head_ends = vec![];
        for (i, m) in msgs.iter().enumerate() {
            wire.extend(format!("{} /m{} HTTP/1.1\r\n", m.method, i + 1).as_bytes());
            for (n, v) in &m.fields {
                wire.extend(format!("{n}: {v}\r\n").as_bytes());
            }
            wire.extend(b"\r\n");
            head_ends.push(wire.len());
            wire.extend(&m.body);
        }
        let sent: Vec<Value> = msgs
            .iter()
            .enumerate()
            .map(|(i, m)| {
                json!({"idx": i + 1, "method": ints(m.method.as_bytes()),
                       "fields": m.fields.iter().map(|(n, v)| json!([ints(n.as_bytes()), ints(v.trim().as_bytes())])).collect::<Vec<_>>(),
                       "blen": m.body.len(), "bdig": digest(&m.body),
                       "restlen": wire.len() - head_ends[i], "restdig": digest(&wire[head_ends[i]..])})
            })
            .collect();
        if !out.wants(sid) {
            continue;
        }
        out.ev(sid, "Reset", json!({"sent": sent, "wirelen": wire.len()}));
        if sid % 2 == 0 {
            // the same wire through `HttpConn` on a real connection: its own read_request / read_body_to_vec keep the
            // connection's buffer between calls, and whatever follows a body in that buffer is the next request
            via_conn(&mut out, sid, &wire, &conn_listener);
            continue;
        }
        let cuts = random_cuts(&mut r, wire.len());
        let mut rd = ScriptedReader::with_cuts(wire.clone(), &cuts);
        let mut buf: FixedBuf<8192> = FixedBuf::new();
        let budget = wire.len() * 2 + 50;
        loop {
            let res = catch(|| poll_budget(read_http_request(localhost(1), &mut buf, &mut rd), budget));
            let req = match res {
                Err(()) => {
                    out.ev(sid, "Err", json!({"kind":"Panic"}));
                    break;
                }
                Ok(None) => {
                    out.ev(sid, "Err", json!({"kind":"Hang"}));
                    break;
                }
                Ok(Some(Err(e))) => {
                    out.ev(sid, "Err", json!({"kind": variant_name(&e)}));
                    break;
                }
                Ok(Some(Ok(req))) => req,
            };
            let path = req.url.path().to_string();
            let idx: u64 = path.strip_prefix("/m").and_then(|s| s.parse().ok()).unwrap_or(0);
            let mut ev = request_json(&req, 0);
            ev["idx"] = json!(idx);
            ev["path"] = ints(path.as_bytes());
            ev["method"] = ints(req.method.as_bytes());
            out.ev(sid, "Req", ev);
            if req.chunked || req.gzip {
                out.ev(sid, "Refuse", json!({}));
                break;
            }
            match &req.body {
                RequestBody::PendingKnown(len) => {
                    let len = *len as usize;
                    let res = catch(|| poll_budget(read_http_body_to_vec((&mut buf).chain(&mut rd), len), budget));
                    match res {
                        Ok(Some(Ok(RequestBody::Vec(v)))) => out.ev(sid, "Body", json!({"len": v.len(), "dig": digest(&v)})),
                        Ok(Some(Err(e))) => {
                            out.ev(sid, "Err", json!({"kind": variant_name(&e)}));
                            break;
                        }
                        _ => {
                            out.ev(sid, "Err", json!({"kind":"Panic"}));
                            break;
                        }
                    }
                }
                RequestBody::PendingUnknown => {
                    let res = catch(|| poll_budget(read_http_unsized_body_to_vec((&mut buf).chain(&mut rd)), budget));
                    match res {
                        Ok(Some(Ok(RequestBody::Vec(v)))) => out.ev(sid, "Body", json!({"len": v.len(), "dig": digest(&v)})),
                        _ => out.ev(sid, "Err", json!({"kind":"Panic"})),
                    }
                    out.ev(sid, "Eof", json!({}));
                    break;
                }
                _ => {}
            }
        }
        out.ev(sid, "End", json!({"unread": buf.len() + rd.unread()}));
    }
    out.finish();
}
