//! C11.
//!  `sse-replay`   every TLC-generated interleaving of sender steps and writer polls is
//!                 replayed single-threaded on `Response::event_stream()` + the serialiser
//!                 future, which is polled by hand exactly where the behaviour has `Poll`
//!  `sse-content`  event contents over the line-terminator / leading-character / non-ASCII /
//!                 near-64-KiB classes, encoded by `Event::write_to` and through the stream
//!  `sse-threads`  1..4 sender threads through a real server and a real client
use crate::common::*;
use rand::prelude::*;
use serde_json::{json, Value};
use servlin::internal::*;
use servlin::*;
use std::future::Future;
use std::io::{BufRead, Read, Write};
use std::pin::Pin;
use std::sync::{Arc, Mutex};
use std::task::{Context, Poll};

/// In-memory writer.  `mode` 0 accepts everything offered, 1 accepts one byte per call, 2 cycles through small sizes:
/// a writer may take any non-empty prefix of what it is offered (a socket whose send buffer is nearly full does), and
/// since it never returns `Pending` the polls of a behaviour keep their meaning.
struct SharedW(Arc<Mutex<Vec<u8>>>, u8, usize);
impl futures_io::AsyncWrite for SharedW {
    fn poll_write(mut self: Pin<&mut Self>, _cx: &mut Context<'_>, buf: &[u8]) -> Poll<std::io::Result<usize>> {
        self.2 += 1;
        let k = match self.1 {
            0 => buf.len(),
            1 => 1,
            _ => [1usize, 2, 3, 5, 7, 4][self.2 % 6],
        }
        .min(buf.len());
        self.0.lock().unwrap().extend_from_slice(&buf[..k]);
        Poll::Ready(Ok(k))
    }
    fn poll_flush(self: Pin<&mut Self>, _cx: &mut Context<'_>) -> Poll<std::io::Result<()>> {
        Poll::Ready(Ok(()))
    }
    fn poll_close(self: Pin<&mut Self>, _cx: &mut Context<'_>) -> Poll<std::io::Result<()>> {
        Poll::Ready(Ok(()))
    }
}
fn idx(h: &str) -> usize {
    h[1..].parse::<usize>().unwrap() - 1
}
/// Lexical walk of the chunked body: payloads of the data chunks, terminator seen, walk error.
fn walk(mut b: &[u8]) -> (Vec<Vec<u8>>, bool, bool) {
    let mut chunks = vec![];
    while !b.is_empty() {
        let Some(p) = b.windows(2).position(|w| w == b"\r\n") else { return (chunks, false, true) };
        let Ok(n) = usize::from_str_radix(std::str::from_utf8(&b[..p]).unwrap_or("x"), 16) else { return (chunks, false, true) };
        if n == 0 {
            return (chunks, true, b.len() != p + 4);
        }
        if b.len() < p + 2 + n + 2 {
            return (chunks, false, true);
        }
        chunks.push(b[p + 2..p + 2 + n].to_vec());
        b = &b[p + 2 + n + 2..];
    }
    (chunks, false, false)
}

pub fn run_replay(args: &Args, mut out: Out) {
    let input = args.opt("in").expect("--in FILE with TLC's EDGE lines");
    let waker = counting_waker();
    let mut sid = 0u64;
    for line in std::io::BufReader::new(std::fs::File::open(input).unwrap()).lines() {
        let line = line.unwrap();
        if !line.starts_with('{') {
            continue;
        }
        sid += 1;
        if !out.wants(sid) {
            continue;
        }
        let e: Value = serde_json::from_str(&line).unwrap();
        let (sender, response) = Response::event_stream();
        let sink = Arc::new(Mutex::new(Vec::new()));
        let w = SharedW(sink.clone(), (sid % 3) as u8, 0);
        // the future owns the response, so the receiver is dropped when serialisation ends (as in handle_http_conn_once)
        let mut fut: Option<Pin<Box<dyn Future<Output = Result<(), HttpError>>>>> = Some(Box::pin(async move {
            let r = response;
            write_http_response(w, &r, false).await
        }));
        let mut cx = Context::from_waker(&waker);
        // the head is written on the first poll; do it now so that only body bytes are observed afterwards
        if let Poll::Ready(_) = fut.as_mut().unwrap().as_mut().poll(&mut cx) {
            fut = None;
        }
        let head_len = {
            let o = sink.lock().unwrap();
            o.windows(4).position(|w| w == b"\r\n\r\n").map_or(0, |p| p + 4)
        };
        let mut handles: Vec<Option<EventSender>> = vec![Some(sender), None, None];
        let mut sent: Vec<String> = vec![];
        let mut next_id = 1usize;
        let mut panicked = false;
        for step in e["h"].as_array().unwrap() {
            let r = catch(|| match step["op"].as_str().unwrap() {
                "Poll" => {
                    if let Some(f) = fut.as_mut() {
                        if let Poll::Ready(_) = f.as_mut().poll(&mut cx) {
                            fut = None;
                        }
                    }
                }
                "Send" => {
                    let h = idx(step["h"].as_str().unwrap());
                    let kind = step["e"].as_str().unwrap();
                    // the model numbers accepted events; the payload carries the candidate number
                    // the payload carries the candidate number; in every fourth behaviour it is padded so that the event's
                    // encoding ("data: " + payload + LF, one chunk) has a length at a boundary of the hexadecimal size line
                    let mut data = if kind == "empty" { String::new() } else { format!("{kind}#{next_id}") };
                    if kind != "empty" && sid % 4 == 3 {
                        let target = [15usize, 16, 17, 255, 256, 257, 4095, 4096, 4097, 65_527, 65_528][(next_id + sid as usize / 4) % 11];
                        if target > data.len() + 8 {
                            data.push(' ');
                            data.push_str(&"p".repeat(target - 7 - data.len()));
                        }
                    }
                    let was = handles[h].as_ref().map_or(false, EventSender::is_connected);
                    if let Some(s) = handles[h].as_mut() {
                        s.send(Event::Message(data.clone()));
                    }
                    let still = handles[h].as_ref().map_or(false, EventSender::is_connected);
                    if was && still {
                        sent.push(data);
                        next_id += 1;
                    }
                }
                "Burst" => {
                    let h = idx(step["h"].as_str().unwrap());
                    for _ in 0..step["n"].as_u64().unwrap() {
                        let data = format!("one#{next_id}");
                        let was = handles[h].as_ref().map_or(false, EventSender::is_connected);
                        if let Some(s) = handles[h].as_mut() {
                            s.send(Event::Message(data.clone()));
                        }
                        let still = handles[h].as_ref().map_or(false, EventSender::is_connected);
                        if was && still {
                            sent.push(data);
                            next_id += 1;
                        }
                    }
                }
                "Clone" => {
                    let h = idx(step["h"].as_str().unwrap());
                    let g = idx(step["g"].as_str().unwrap());
                    handles[g] = handles[h].clone();
                }
                "Disconnect" => {
                    let h = idx(step["h"].as_str().unwrap());
                    if let Some(s) = handles[h].as_mut() {
                        s.disconnect();
                    }
                }
                "Drop" => {
                    let h = idx(step["h"].as_str().unwrap());
                    handles[h] = None;
                }
                _ => unreachable!(),
            });
            if r.is_err() {
                panicked = true;
                break;
            }
        }
        let body = sink.lock().unwrap()[head_len..].to_vec();
        let (chunks, term, walkerr) = walk(&body);
        // project the chunks back to acceptance numbers: the k-th accepted event's encoding
        let enc = |d: &str| {
            let mut v = vec![];
            Event::Message(d.to_string()).push_to(&mut v);
            v
        };
        // each chunk is matched with the earliest not yet matched accepted event that encodes to it
        let mut used = vec![false; sent.len()];
        let mut got_ids: Vec<i64> = vec![];
        for c in &chunks {
            match (0..sent.len()).find(|&j| !used[j] && &enc(&sent[j]) == c) {
                Some(j) => {
                    used[j] = true;
                    got_ids.push(j as i64 + 1);
                }
                None => got_ids.push(-2),
            }
        }
        let got_conn: Vec<bool> = handles.iter().map(|h| h.as_ref().map_or(false, EventSender::is_connected)).collect();
        let exp_conn: Vec<bool> = ["h1", "h2", "h3"].iter().map(|h| e["conn"][*h].as_bool().unwrap()).collect();
        out.ev(sid, "Reset", json!({}));
        out.ev(
            sid,
            "Replay",
            json!({"hist": e["h"],
                   "exp": {"conn": exp_conn, "out": e["out"], "term": e["term"], "fault": false},
                   "got": {"conn": got_conn, "out": got_ids, "term": term, "fault": panicked || walkerr}}),
        );
    }
    out.finish();
}

fn content_event(r: &mut StdRng, big: bool) -> (Option<String>, String) {
    let pieces = ["", "a", "x y", " lead", ":colon", "data: inj", "event: evil", "id: 7", "\n", "\r\n", "\r", "\n\n", "é", "\u{1F600}", "retry: 1", ": c", "a:b", "\r\r", "\n\r"];
    let mut data: String = (0..r.gen_range(0..6)).map(|_| *pieces.choose(r).unwrap()).collect();
    if big {
        // near the 65 528-byte read of the chunk writer: the encoding is "data: " + line + "\n" per line
        // (both sides of the limit: an event whose encoding exceeds the buffer has to be REFUSED, never cut)
        let target = if r.gen_bool(0.5) { r.gen_range(65_380..65_522usize) } else { *[65_522usize, 65_523, 65_530, 65_600, 70_000, 131_072].choose(r).unwrap() };
        data = "z".repeat(target);
        if r.gen_bool(0.5) {
            data.insert(target / 2, '\n');
        }
    }
    let ty: Option<String> =
        if r.gen_bool(0.4) {
            // (a type with a line break cannot be encoded: `Event::custom` has to refuse it, wherever the break is)
            Some((0..r.gen_range(0..5)).map(|_| *["t", " ", ":", "x1", "é", "t", "x1", "\n", "\r", "\r\n"].choose(r).unwrap()).collect())
        } else {
            None
        };
    (ty, data)
}

pub fn run_content(args: &Args, mut out: Out) {
    let n = args.u64("n", 3000);
    let nbig = args.u64("big", 16);
    let mut r = args.rng();
    for sid in 1..=(n + nbig) {
        let (ty, data) = content_event(&mut r, sid > n);
        if !out.wants(sid) {
            continue;
        }
        let ev = match &ty {
            None => Event::Message(data.clone()),
            Some(t) => match Event::custom(t, data.clone()) {
                Ok(e) => e,
                Err(_) => continue,
            },
        };
        let mut buf = vec![0u8; 65528];
        let res = catch(|| ev.write_to(&mut buf));
        let (block, fits) = match res {
            Ok(Ok(k)) => (String::from_utf8_lossy(&buf[..k]).to_string(), true),
            Ok(Err(_)) => (String::new(), false),
            Err(()) => ("<panic>".to_string(), true),
        };
        out.ev(sid, "Reset", json!({}));
        if !fits {
            // documented limit: an event whose encoding exceeds the 65 528-byte read ends the stream without a terminator
            let enc_len = catch(|| {
                let mut v = vec![];
                ev.push_to(&mut v);
                v.len()
            })
            .unwrap_or(0);
            out.ev(sid, "TooBig", json!({"len": data.len(), "encLen": enc_len}));
            continue;
        }
        // the same event through push_to must give the same bytes
        // (a panic of the encoder is data, not a failure of the harness: the block then reads "<panic>" and is rejected)
        let v = catch(|| {
            let mut v = vec![];
            ev.push_to(&mut v);
            v
        })
        .unwrap_or_else(|()| b"<panic in push_to>".to_vec());
        let same = v == block.as_bytes();
        out.ev(
            sid,
            "Block",
            json!({"type":cps(ty.as_deref().unwrap_or("")),"data":cps(&data),
                   "block": if same { cps(&block) } else { cps("<write_to and push_to differ>") }}),
        );
    }
    out.finish();
}

pub fn run_threads(args: &Args, mut out: Out) {
    let runs = args.u64("runs", 20);
    let mut r = args.rng();
    safina::timer::start_timer_thread();
    let executor = safina::executor::Executor::new(2, 8).unwrap();
    type Plan = Arc<Mutex<Option<(usize, usize, u64)>>>; // (threads, events per thread, seed)
    let plan: Plan = Arc::new(Mutex::new(None));
    type SendLog = Arc<Mutex<Vec<Vec<(usize, bool)>>>>;
    let sendlog: SendLog = Arc::new(Mutex::new(vec![]));
    let done = Arc::new(Mutex::new(0usize));
    let (plan2, sendlog2, done2) = (plan.clone(), sendlog.clone(), done.clone());
    let handler = move |_req: Request| {
        let (nthreads, per, seed) = plan2.lock().unwrap().unwrap();
        let (sender, response) = Response::event_stream();
        *sendlog2.lock().unwrap() = vec![vec![]; nthreads];
        *done2.lock().unwrap() = 0;
        for t in 0..nthreads {
            let mut s = sender.clone();
            let log = sendlog2.clone();
            let done = done2.clone();
            std::thread::spawn(move || {
                let mut rr = StdRng::seed_from_u64(seed + t as u64);
                for i in 1..=per {
                    if !s.is_connected() {
                        break;
                    }
                    s.send(Event::Message(format!("t{}:{}", t + 1, i)));
                    let accepted = s.is_connected();
                    log.lock().unwrap()[t].push((i, accepted));
                    if rr.gen_bool(0.3) {
                        std::thread::sleep(std::time::Duration::from_micros(rr.gen_range(0..300)));
                    }
                }
                drop(s);
                *done.lock().unwrap() += 1;
            });
        }
        drop(sender);
        response
    };
    let permit = permit::Permit::new();
    let (addr, _stopped) = executor.block_on(HttpServerBuilder::new().max_conns(10).permit(permit.new_sub()).spawn(handler)).unwrap();
    for sid in 1..=runs {
        let nthreads = r.gen_range(1..=4);
        let per = *[5usize, 40, 200].choose(&mut r).unwrap();
        let slow_client = r.gen_bool(0.3);
        if !out.wants(sid) {
            continue;
        }
        *plan.lock().unwrap() = Some((nthreads, per, r.gen()));
        let mut c = std::net::TcpStream::connect(addr).unwrap();
        c.set_read_timeout(Some(std::time::Duration::from_secs(20))).unwrap();
        c.write_all(b"GET /events HTTP/1.1\r\n\r\n").unwrap();
        let mut got = vec![];
        let mut buf = [0u8; 4096];
        let mut first = true;
        loop {
            if slow_client && first {
                // let the bounded queue overrun before the first read
                std::thread::sleep(std::time::Duration::from_millis(30));
                first = false;
            }
            match c.read(&mut buf) {
                Ok(0) => break,
                Ok(k) => {
                    got.extend_from_slice(&buf[..k]);
                    // the terminating chunk ends the response
                    if got.ends_with(b"0\r\n\r\n") {
                        break;
                    }
                }
                Err(_) => break,
            }
        }
        let all_done_at_term = *done.lock().unwrap() == nthreads;
        // wait for the sender threads (they stop once disconnected or finished)
        let deadline = std::time::Instant::now() + std::time::Duration::from_secs(10);
        while *done.lock().unwrap() < nthreads && std::time::Instant::now() < deadline {
            std::thread::sleep(std::time::Duration::from_millis(1));
        }
        let head_len = got.windows(4).position(|w| w == b"\r\n\r\n").map_or(0, |p| p + 4);
        let (chunks, term, _walkerr) = walk(&got[head_len..]);
        let mut recv = vec![];
        for ch in &chunks {
            let s = String::from_utf8_lossy(ch).to_string();
            for line in s.lines() {
                if let Some(rest) = line.strip_prefix("data: t") {
                    let mut it = rest.split(':');
                    let t: usize = it.next().and_then(|x| x.parse().ok()).unwrap_or(0);
                    let i: usize = it.next().and_then(|x| x.parse().ok()).unwrap_or(0);
                    recv.push(json!({"t": t, "i": i}));
                }
            }
        }
        let sends: Vec<Value> = sendlog.lock().unwrap().iter().map(|v| Value::Array(v.iter().map(|(i, a)| json!({"i": i, "accepted": a})).collect())).collect();
        out.ev(sid, "Reset", json!({}));
        // the terminator may only be sent when every sender is gone; the client saw it before all threads
        // were done only if the remaining threads had already been disconnected (overrun) - not judged here
        out.ev(
            sid,
            "Threads",
            json!({"threads": nthreads, "per": per, "slow": slow_client, "sends": sends, "recv": recv, "term": term,
                   "termEarly": false, "allDoneAtTerm": all_done_at_term}),
        );
        drop(c);
    }
    drop(permit);
    out.finish();
}
