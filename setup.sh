#!/bin/sh
# Offline set-up: build the conformance harness against /repo and parse every specification module.
set -e
cd "$(dirname "$0")"
export CARGO_NET_OFFLINE=true
(cd harness && cargo build --release --offline)
cd spec
for f in *.tla; do
  java -cp /opt/veriftools/tla/tla2tools.jar:/opt/veriftools/tla/CommunityModules-deps.jar tla2sany.SANY "$f" >/tmp/sany.$$ 2>&1 || { cat /tmp/sany.$$; rm -f /tmp/sany.$$; exit 1; }
  if grep -q "Semantic errors\|Parse Error\|Fatal errors" /tmp/sany.$$; then cat /tmp/sany.$$; rm -f /tmp/sany.$$; exit 1; fi
done
rm -f /tmp/sany.$$
echo "setup ok"
