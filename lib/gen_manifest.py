#!/usr/bin/env python3
"""Writes /verif/MANIFEST.json from the table below (run after adding or changing a check)."""
import json
import os
import subprocess

VERIF = os.path.dirname(os.path.dirname(os.path.abspath(__file__)))

# id -> (category, technique, text, note, design_ref)
CHECKS = {
    "C05": ("model_checking",
            "TLA+ spec Conn.tla model-checked by TLC; exhaustive call-sequence enumeration on the real HttpConn, "
            "every recorded call validated against the spec by TLC (trace validation)",
            "Conn.tla states HttpConn's protocol-state contract as a total step function with 3 invariants and 7 "
            "action properties; TLC explores the full graph over 13 client scripts x 15 operation instances. The real "
            "HttpConn is bound to it by running every operation sequence to depth 3 (quick) / 4 (thorough) plus "
            "random depth-5 sequences over loopback and letting TLC check each recorded call result, protocol state "
            "and wire token against the spec with all properties on.",
            "Trusted: TLC, the lexical wire projection (status code, connection: close), loopback sockets with a "
            "pre-written half-closed client (calls are deterministic). Depth beyond 4 is sampled, not exhaustive.",
            "4 C05"),
}

CHECKS["C14"] = ("model_checking",
    "TLA+ spec Headers.tla (ordered case-insensitive multimap) model-checked by TLC; exhaustive operation-sequence "
    "enumeration on the real HeaderList validated against the spec by TLC",
    "MC_Headers explores every operation sequence to depth 6 on collections of up to 4 fields over a 3-name x 2-case "
    "pool and checks Subsequence / Partition / OnlyIffOne after every operation. The real HeaderList is driven through "
    "every sequence of 18 operation instances to depth 4 (quick) / 5 (thorough) and random depth-12 sequences; TLC "
    "compares returned values and the whole list after each call with Headers!OpStep. Generated requests check that "
    "the handler-visible header list is the list sent minus consumed framing fields; every AsciiString constructor is "
    "checked on ASCII and non-ASCII input.",
    "Trusted: TLC; the name pool (3 names x 2 cases) is assumed representative of all ASCII names.", "4 C14")
CHECKS["C03"] = ("model_checking",
    "TLA+ spec Framing.tla (RFC 7230 3.3.3 classification, digit-tuple lengths) + Conn.tla; generated header "
    "multisets and pipelined wires run through the real reader, every recorded outcome validated by TLC",
    "Framing!Classify is written from RFC 7230 section 3.3.3 and the property text. The cross product of method class x "
    "Content-Length multiset x Transfer-Encoding multiset x Expect and random header multisets go through "
    "read_http_request; wires of 1..8 messages (bodies that look like requests, ambiguous framing) are read back under "
    "random fragmentation and TLC checks NoSmuggle (requests returned are a prefix of messages sent, bodies byte-exact) "
    "and RejectNotIgnore (invalid framing ends the sequence with the matching error).",
    "Trusted: TLC; bodies compared by length + 31-bit digest; case variants of coding names are a free zone.", "4 C03")

CHECKS["C01"] = ("model_checking",
    "TLA+ ReadHead machine (buffer, reads of k bytes, EOF) model-checked by TLC for split independence and "
    "termination; real read_http_head run under every partition of short inputs and random partitions of generated "
    "heads, outcomes validated by TLC against the whole-input oracle",
    "ReadHead.tla mirrors read_http_head's loop (TryParse / Full / Read(k) / ReadEof); TLC checks on all strings up to "
    "length 5-6 over a 6-symbol alphabet x all read partitions that the outcome equals a split-free Oracle, that "
    "nothing past the blank line is consumed, and that every behaviour terminates. The code is bound by running the "
    "same short inputs under EVERY partition through read_http_head::<N> with the same N, by 3k/100k grammar-derived "
    "and mutated heads (all 256 byte values, sizes up to 8192+64) under random partitions and EOF offsets, and by a "
    "sample through a real server over TCP; TLC judges each recorded outcome with Head!RefParse + the oracle.",
    "Trusted: TLC; the scripted reader; hang = still pending after len+6 polls. Which error is reported for a head "
    "with two independent defects is free (the oracle carries the set of applicable kinds).", "4 C01")
CHECKS["C02"] = ("model_checking",
    "RFC 7230 section 3 request-head grammar transcribed into TLA+ (Head!RefParse) as the reference parser; "
    "generated and mutated heads parsed by the real Head::try_read / read_http_head and judged by TLC",
    "Pure-function property: the specification acts as a transcribed oracle (weakest form of the technique, stated in "
    "DESIGN.md section 1). RefParse classifies each head as must-accept (method, path, query, every field in order "
    "compared exactly), must-reject (error class compared) or implementation-free (internal consistency only). 6k "
    "(quick) / 200k (thorough) heads over the full byte range go through the real parser twice (whole buffer and "
    "fragmented reads); the field order of the Request the handler gets (after the framing fields are lifted out) is "
    "judged by Framing's header clause on framing-gen.",
    "Trusted: TLC and the transcription of the ABNF; free zone listed in DESIGN.md section 4 C02 (bare LF, CR next to OWS, "
    "obs-text, URL-normalised targets); narrowed during the build: a tolerated head must still be exposed faithfully "
    "(bare LF = line end, UTF-8 target = percent-encoded bytes), non-UTF-8 targets are must-reject.", "4 C02")

CHECKS["C06"] = ("model_checking",
    "TLA+ predicates Response!FieldsOk/BodyOk/RefuseSet + independent RFC 7230 response-head parser + Chunked decoder; "
    "generated responses serialised by the real write_http_response under several writer schedules, judged by TLC",
    "Response.tla states what may be on the wire as a predicate (status line grammar; user fields verbatim in order; "
    "content-type iff a type is set; connection: close iff closing; exactly one of content-length = body length / "
    "transfer-encoding: chunked; refusal before any byte when an automatic field is duplicated). 600 (quick) / 6000 "
    "(thorough) generated responses over all status codes, content types, field names and body variants and sizes are "
    "serialised under up to 4 writer schedules; TLC parses each head back with ParseHead, checks the fields and the "
    "walked body, and demands identical bytes under every schedule. MC_Chunked model-checks the chunked framing used "
    "for unknown-length bodies.",
    "Trusted: TLC; lexical walk of the body; bodies compared by length + 31-bit digest. Free zone: reason phrase text, "
    "relative order of automatic and user fields, user values with leading/trailing blanks.", "4 C06")
CHECKS["C07"] = ("model_checking",
    "TLA+ encoder machine MC_Chunked model-checked by TLC (Decodes, NoEarlyZero, ErrorLeavesNoTerminator, hex round "
    "trip for 1..65528); real copy_chunked_async run for EVERY piece length and on random faulted streams, output "
    "judged by the RFC 7230 4.1 decoder in TLA+",
    "MC_Chunked explores all sources of up to 3 pieces of 1..20 bytes with an encoder buffer of 17, source errors and "
    "writer failures at every segment. The real encoder is run for every piece length 1..65528 (exhaustive) and on "
    "random streams with adversarial piece lengths, source errors and writer failures at and inside chunk boundaries; "
    "TLC checks each size line = data length (ParseHex), CRLFs, no early zero chunk, exactly one terminator, decoded "
    "bytes = source, and no terminator after a source error.",
    "Trusted: TLC; the lexical walk follows the sizes the stream itself declares; data compared by length + digest.",
    "4 C07")
CHECKS["C08"] = ("fault_enumeration",
    "write error injected at every byte offset of 8 responses and body-source faults, at serialiser and connection "
    "level; each outcome judged by TLC against Response!WriteFaultOk/BodyFaultOk/ConnFaultOk and Conn.tla",
    "Exhaustive fault enumeration over byte offsets: for each of 8 response variants a write error after every "
    "accepted-byte count 0..len+1 under two write granularities; body files shorter than declared by several amounts, "
    "missing, or removed between head and body; connection-level cases over loopback followed by the 500 that "
    "handle_http_conn would send. TLC checks: emitted bytes are exactly the canonical prefix, a partial write ends "
    "in write state Shutdown with one status line, a clean refusal leaves the response owed and one 500 goes out. "
    "Conn.tla (model-checked) carries the same rule (MisuseIsInert / SilentAfterShutdown).",
    "Trusted: the scripted writer; a real socket cannot be failed at a chosen offset, so connection-level cases use "
    "body-source faults only.", "4 C08")
CHECKS["C20"] = ("model_checking",
    "TLA+ tables Status!Class/CtorOk/CloseMarkOk + Conn.tla close rule; exhaustive enumeration of constructors, error "
    "variants and status codes 100..999 on the real code, judged by TLC",
    "Table property: the specification acts as a transcribed oracle. Every status-named constructor, every HttpError "
    "variant (payloads with paths and CR/LF) mapped to a response, serialised and read back, and every status 100..999 "
    "through a loopback HttpConn (with and without handler-supplied connection / keep-alive fields) are checked against "
    "Status.tla; Conn.tla's FiveXXCloses is model-checked. Builder.tla (the whole response builder: constructors, with_* "
    "modifiers, ContentType texts) is bound by builder-gen: a status-named constructor with the wrong code is a violation, "
    "any other discrepancy is specification beyond this property and is reported in the evidence as a note.",
    "Trusted: TLC; the constructor list is re-derived from response.rs on each run and unknown constructors are "
    "reported as uncovered.", "4 C20")

CHECKS["C04"] = ("model_checking",
    "TLA+ machine Exchange.tla (one action per await-delimited step of handle_http_conn_once) model-checked by TLC; "
    "random request histories against a real server, servlin's hook log validated step by step against the machine",
    "Exchange.tla is a deterministic step function over scenarios (requests, handler answers, client faults); "
    "MC_Exchange runs every scenario of a bounded family and checks CallCount, Order, ClosedIsFinal, one final response "
    "per request, termination, in every intermediate state. Binding: 1.5k (quick) / 30k (thorough) random histories of "
    "1..12 requests under four client delivery schedules against HttpServerBuilder::spawn; the hook log (request "
    "read, handler call with body kind/length/digest, response written, connection end) must be exactly the sequence "
    "of observables the machine emits, and the client's transcript must equal the responses written.",
    "Trusted: TLC, hook placement (sequence numbers assigned under one mutex inside servlin), loopback TCP. When the "
    "server closes with client bytes unread the transcript only has to be a prefix (TCP reset may drop bytes).", "4 C04")
CHECKS["C09"] = ("model_checking",
    "Exchange.tla with limits as decimal digit tuples (MemBound, DiskBound, Intact invariants) model-checked by TLC; "
    "boundary cross product of uploads against a real server validated against the machine",
    "The spec never computes M+1 on machine integers (DecSucc on digit tuples), so the 2^64-1 boundary is visible. "
    "The full cross product S x M x L x declared x Expect x cache-dir (2.2k scenarios incl. 2^63, 2^64-1) runs against "
    "servers built per small_body_len; handler calls (body variant, length, digest), interim and final status codes, "
    "bytes copied to disk (hook) must match the machine's observables.",
    "Trusted: TLC, hooks, 31-bit digests. Lengths above 70002 are only declared, never sent. With no cache directory "
    "413 or 500 is accepted (free zone). Bodies of pipelined wires (half of them read through HttpConn) are compared with "
    "what was sent (Framing's body clause on pipeline-gen); Request::recv_body is swept over its boundary table.", "4 C09")
CHECKS["C10"] = ("fault_enumeration",
    "Exchange.tla NoLeak invariant model-checked at every step of the multi-step upload (incl. disk-write failure, "
    "removed cache dir, client reset); upload fault enumeration against a real server with the cache directory listed "
    "after the hooked connection end",
    "Fault enumeration: client disconnect at offset classes x over-limit x handler outcome after receipt x removed "
    "cache dir x 1..4 concurrent uploads; after the hook log shows ConnEnd for every connection of a batch the cache "
    "directory must be empty. The model covers the same crash points plus disk-write failure.",
    "Trusted: hook H5 (ConnEnd emitted by a drop guard after the request and its temp file are dropped). Disk-write "
    "failure is provoked on the real server in a child process (RLIMIT_FSIZE); further faults provoked on the real server: a "
    "handler pool with no free thread, a failing 100 Continue (connection reset before the upload is invited), handlers that "
    "keep a clone of the request; exchange-gen's directory listings after pipelined histories are judged too.", "4 C10")

CHECKS["C12"] = ("model_checking",
    "TLA+ ServerSteps.tla (one step function per hook event: accept loop pc, token set, permit, connections) model-checked "
    "by TLC as a machine (Limit, Conservation, Refill) and, as a counting abstraction with the maximum left unconstrained, "
    "proved inductive by Apalache (bound to the machine by a TLC refinement check); hook logs of real server runs "
    "validated event by event by TLC through the same step function; exhaustive TokenSet API sequences",
    "ServerSteps!Apply has one case per hook event (sequence numbers assigned inside servlin) and per harness step. "
    "MC_ServerSteps runs it as a machine (187k states quick / 497k thorough) and checks Limit, Conservation (avail + live + "
    "accepted + tokens on their way back + held-by-acceptor = max in every state) and Refill; SlotsInd.tla is its counting "
    "abstraction with Max an arbitrary positive integer: Apalache discharges Init => IndInv, IndInv /\\ Next => IndInv' and "
    "IndInv => Limit /\\ Conservation, and TLC checks (RefinesSlots) that every step of the machine is a step of the "
    "abstraction. The coarser Server.tla is model-checked too. Binding: 300 (quick) / 3000 (thorough) real server runs "
    "with max_conns 1..4, 2..3x clients, every ending kind and accept failures provoked by exhausting the descriptor "
    "table (EMFILE); every hook event is replayed through Apply with Limit and Conservation evaluated after each, slots "
    "fully conserved at quiescence, and an exact refill observation (max gated handlers entered simultaneously). TokenSet / "
    "Token driven directly through every sequence of 7 operations (incl. drop while the owner unwinds from a panic, drop "
    "on another thread) to depth 5/6.",
    "Trusted: TLC, Apalache; hook placement (TokenReturn is logged before the unit is re-inserted, so log order is a valid "
    "linearisation).", "4 C12")
CHECKS["C13"] = ("model_checking",
    "TLA+ ServerSteps.tla / Server.tla safety (StopOrder, AtMostOneMore, mustEnd) and liveness (revoked ~> stop signal under "
    "weak fairness of the accept loop only) model-checked by TLC, with three pre-repair designs shown to violate them; hook "
    "logs of real server runs with revocation at random phases, post-revocation probes and a dedicated accept-vs-revoke "
    "race driver validated by TLC through the same step function",
    "MC_ServerSteps checks Prompt == (revocation completed) ~> (stop signal sent) without state constraint and finds the "
    "counterexamples of D8 (token wait not raced against the permit: MC_Server_pinned, MC_ServerSteps_pinned) and of D14 (a "
    "connection accepted during revocation keeps a permit that is never revoked: MC_ServerSteps_subpermit violates "
    "AtMostOneMore). Binding: each real run ends with revocation at whatever phase its random history reached; the hook "
    "log must show listener release before the stop signal, a connect made by the waker of the signal's receiver (inside send() itself) must be refused, the harness must receive the signal within 5 s, a late connect "
    "must be refused, every connection still open is probed with up to three further requests of which at most one may be "
    "read (and none if its last look at the permit came after the revocation), and handlers running at revocation must "
    "have their response written. permit-race: six accept loops share one permit and a spinning thread revokes it the "
    "moment the hook log shows AccAccepted (6 000 / 120 000 trials): no connection may be left with a permit the "
    "completed revocation did not reach.",
    "Trusted: TLC; bounded liveness observed as a 5 s deadline (typical latency is below 1 ms); RevokeBegin/RevokeDone "
    "stamps bracket the permit drop so requests read during the drop are not miscounted. The race driver is "
    "probabilistic (about 1 % of the trials hit the window on the unrepaired tree).", "4 C13")

CHECKS["C11"] = ("model_checking",
    "TLA+ Sse.tla (bounded queue, sender handles, writer polls) model-checked by TLC; every edge of its state graph "
    "replayed on the real event stream (spec -> impl); WHATWG event-stream parser in TLA+ reads back generated events; "
    "multi-threaded runs validated per sender thread",
    "TLC checks ExactlyOnceInOrder, TerminatorOnlyWhenAllGone, DeliveredBeforeTerminator on all interleavings of up to "
    "8 sender steps and writer polls (181k states) and shows the pre-repair encoding (empty event = zero bytes) violates "
    "them. GEN prints one behaviour per edge of the graph (22.8k at 5 steps, 91k at 6) and the harness replays each on "
    "Response::event_stream() with the serialiser future polled by hand, comparing handle states, delivered events and "
    "terminator with what TLC computed. 3k/40k event contents are encoded by the real code and read back by "
    "SseParse!Parse; 1..4 sender threads run through a real server.",
    "Trusted: TLC; the hand-polled future is deterministic (measured). Known finding D7c (no blank line after a block) "
    "is listed in known_findings.json and reported as KNOWN-FINDING; any other content failure is a VIOLATION. Events "
    "whose encoding exceeds 65528 bytes are a documented limit (not delivered).", "4 C11")

CHECKS["C15"] = ("model_checking",
    "RFC 6265 section 5.2 client-side parser and the request-side cookie-string rules transcribed into TLA+ "
    "(Cookies.tla, Framing!CookieFields); round trip against an independent formatter model-checked by TLC; generated "
    "Cookie headers and built cookies run through the real code and judged by TLC",
    "Pure-function property: the specification acts as a transcribed oracle (weakest form of the technique). MC_Cookies "
    "checks Parse(Format(c)) = c on 1296 cookies. 3k/60k generated Cookie headers go through read_http_request and the "
    "cookie map (or the 400) is compared with Framing!CookieFields; 3k/60k cookies built through the response API are "
    "rendered by with_set_cookie and read back by Cookies!Parse (name, value, Domain, Path, Max-Age as digit tuple up "
    "to 2^40, Secure, HttpOnly, SameSite; exactly one set-cookie field per cookie).",
    "Trusted: TLC and the transcription of RFC 6265. Free zone: blanks around '=' inside a pair; Expires text (checked "
    "under C16); Max-Age = 0 means unset by the documented API.", "4 C15")
CHECKS["C16"] = ("model_checking",
    "TLA+ Calendar.tla: successor-day machine model-checked against the closed forms DaysFromCivil/CivilFromDays for "
    "every day; exhaustive sweep of the real DateTime::new over every day 1970..9999 and additions over every month "
    "1970..2405, judged by TLC",
    "TLC walks the successor-day rule one state per day (303k states to year 2800 quick, 2.93M states to 9999 "
    "thorough) checking both closed forms agree. The real code is swept exhaustively over all 2 932 897 days x 7 "
    "seconds-of-day (losslessly run-length encoded into ~96k Month events, tiling checked), every second of 14 days, "
    "3000 instants through the three rendering users, and ~190k additions; every event is judged by Calendar.tla.",
    "Trusted: TLC; the RLE is lossless (a run is extended only when the code's own outputs continue it). The stamp "
    "in a log file's name can only be made for the current instant: 12 files are created per run and their stamps compared "
    "with the clock read before and after (Calendar!FileNameOk); log lines up to 2553.", "4 C16")
CHECKS["C17"] = ("model_checking",
    "RFC 8259 recogniser/decoder over code points in TLA+ (LogJson.tla), round-trip model-checked against an "
    "independent encoder; every Unicode scalar and generated log lines rendered by the real code and read back by TLC",
    "Pure-function property: transcribed oracle. MC_LogJson checks decoder(encoder(s)) = s and strictness on all "
    "strings up to length 3 over 14 code-point classes. Every Unicode scalar value as a one-character string tag "
    "(thorough: all 1 112 064; quick: boundaries + every 16th) and 600/20000 generated lines of 0..20 tags (all escape "
    "classes, all integer widths incl. 128-bit as decimal text, non-finite floats, booleans, null) through write_jsonl "
    "and through log() -> installed logger are parsed by LogJson!Line: exactly one object + LF, fixed members, one "
    "member per tag whose decoded value equals the tag's value.",
    "Trusted: TLC and the transcription of RFC 8259. Non-finite floats must be representable JSON (string or null).",
    "4 C17")

CHECKS["C19"] = ("model_checking",
    "TLA+ spec LogFiles.tla: the writer loop and PrefixFileSet as step operators, model-checked by TLC as a machine "
    "(MC_LogFiles: one file-system operation per step, clock, restarts, files of earlier runs) incl. agreement of the "
    "small steps with the big-step operators; real LogFileWriter threads and the real PrefixFileSet recorded and every "
    "directory snapshot validated by TLC against those operators (trace validation with a set of possible states)",
    "MC_LogFiles checks TotalBound (all files with the prefix, earlier runs included, at most keep + one event in every "
    "state), PerFileBound, Contiguous (what survives is a gap-free, duplicate-free most-recent suffix), Bookkeeping, "
    "KnownSorted, KeepsRunning, AgeBound, OldestFirst, SuffixOnly and BigStepAgrees for keep = 1x, 2x (quick) and 3.5x, "
    "10x (thorough) the file size, with and without keep-age / write-age, up to 2 restarts and 2 foreign files; five "
    "further configurations keep the counterexamples of the pre-repair design and of the tied-mtime environment. The "
    "code is bound by (i) fileset-ops: random New/Push/DeleteOldest/DeleteOlderThan/TrimTo sequences on real files "
    "with synthetic mtimes, directory compared after every call; (ii) logwriter-run: real writer threads over the "
    "property's configuration grid, sequence-numbered events of 100 B..60 KiB, files left by earlier runs, graceful "
    "restarts, rotation by age; after every batch the directory (per file: length, line count, first/last sequence "
    "number, whole lines, consecutive numbers) must be exactly the one LoopW predicts and satisfy every clause; (iii) "
    "logwriter-crash: the writer runs in a child process killed by SIGKILL 1..3 times in a row, every 'at every moment' "
    "clause is demanded of the directory found, and a restarted writer continues exactly as predicted.",
    "Trusted: TLC; the lexical file projection; 'the batch's last line is on disk' as the stability point. Known finding "
    "D16: files of an earlier run that share one mtime are deleted in arbitrary order (dedicated tie scenarios, "
    "TieExplains; MC_LogFiles_ties keeps the model counterexample); elsewhere the harness re-stamps tied mtimes. File age "
    "counted from closing time; loss of the page cache (machine crash) not explored.", "4 C19")

CHECKS["C18"] = ("model_checking",
    "TLA+ spec Logger.tla (thread-local tag lists, the None/Some/Default logger cell, composition with the fixed tag "
    "priority, delivery, request/response wrapper) model-checked by TLC as a multi-threaded machine (MC_Logger); real "
    "multi-threaded runs recorded with start/end stamps and validated by TLC with INFERRED linearisation points "
    "(trace validation; writers placed by search, reading sends judged against the set of cell values they can have seen)",
    "MC_Logger explores every interleaving of 2-3 threads x 2-3 operations (two-step logging calls, install, drop guard, "
    "receiver death, wrapper with inner operations) and checks ExactlyOnce, Routed, StoppedIsError, Isolation, "
    "FixedOrder (stated without the sort), GuardMatches and WrapperFaithful over what the sinks received. The code is "
    "bound by logger-threads: 1..8 real threads x 5..60 random operations over the public logging API with harness-held "
    "loggers and the captured stdout default; TLC accepts a run iff some placement of the unlogged linearisation points "
    "explains every return value, every delivered event (sink, level, tags in order, values) and leaves no event "
    "unexplained. One pass reports every unexplained run (GiveUp + TLC registers).",
    "Trusted: TLC; the lexical projection of log lines; the stamps (one atomic counter). Free: values of duration_ms and "
    "of the backtrace message. Not observed: the relative order of events inside one sink.", "4 C18")

NOT_APPLICABLE = {}


def main():
    props = [json.loads(l) for l in open(os.path.join(VERIF, "properties.jsonl"))]
    ids = [p["id"] for p in props]
    checks = []
    for pid in ids:
        if pid not in CHECKS:
            continue
        cat, tech, text, note, ref = CHECKS[pid]
        checks.append({
            "property_id": pid,
            "quick_cmd": f"./check {pid} --tier quick",
            "thorough_cmd": f"./check {pid} --tier thorough",
            "evidence_file": f"/verif/evidence/{pid}.json",
            "replay_cmd_template": f"./check {pid} --replay {{path}}",
            "engine": "tla-conformance",
            "level_claimed": {"category": cat, "text": text, "design_ref": "DESIGN.md section " + ref},
            "level_note": note,
            "technique": tech,
        })
    na = [{"property_id": pid, "reason": NOT_APPLICABLE.get(pid, "check not built yet in this round; planned in "
                                                                  "DESIGN.md section 4 and claimed once its pipeline "
                                                                  "runs green")}
          for pid in ids if pid not in CHECKS]
    try:
        commits = subprocess.run(["git", "-C", "/repo", "log", "--format=%H %s"], capture_output=True, text=True).stdout
        hook_commits = [l.split()[0] for l in commits.splitlines() if "verif hooks" in l]
    except Exception:
        hook_commits = []
    m = {
        "version": 1,
        "setup_cmd": "./setup.sh",
        "hooks": {
            "guard": "cargo feature verif_hooks",
            "enable": "the harness depends on servlin = { path = \"/repo\", features = [\"verif_hooks\"] }; "
                      "every check runs `cargo build --release --offline` in /verif/harness first",
            "baseline_off_cmd": "cd /repo && cargo test --workspace --no-fail-fast --offline",
            "source_commits": hook_commits,
            "add_only": True,
        },
        "engines": [{
            "name": "tla-conformance",
            "path": "/verif/check",
            "serves_properties": [c["property_id"] for c in checks],
            "kind_free_text": "explicit TLA+ specification (/verif/spec) model-checked with TLC; Rust harness "
                              "(/verif/harness) replays TLC-generated behaviours into servlin and records traces of "
                              "servlin that TLC validates against the specification",
        }],
        "checks": checks,
        "not_applicable": na,
        "notes": "exit 0 = held on everything explored; exit 1 + VIOLATION line = violation; exit 2 = tool error. "
                 "Known findings are listed in /verif/known_findings.json.",
    }
    json.dump(m, open(os.path.join(VERIF, "MANIFEST.json"), "w"), indent=1)
    print(f"MANIFEST.json: {len(checks)} checks, {len(na)} not_applicable")


if __name__ == "__main__":
    main()
