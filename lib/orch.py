"""Orchestration shared by all property checks (see DESIGN.md section 2.4).

A check = build the harness against /repo's working tree -> TLC model checking of the
specification modules the property is anchored in -> drivers record traces of the real
code -> TLC validates every trace against the specification -> failures are matched
against known_findings.json -> evidence is written -> exit code.

Exit codes: 0 property held on everything explored; 1 after a line
`VIOLATION property=<id> replay=<path>`; 2 tool error / time-out (never a verdict).
"""
import concurrent.futures as cf
import hashlib
import json
import os
import re
import shutil
import subprocess
import sys
import time

VERIF = os.path.dirname(os.path.dirname(os.path.abspath(__file__)))
SPEC = os.path.join(VERIF, "spec")
HARNESS = os.path.join(VERIF, "harness")
VH = os.path.join(HARNESS, "target", "release", "vh")
TLA_JAR = "/opt/veriftools/tla/tla2tools.jar"
TLA_DEPS = "/opt/veriftools/tla/CommunityModules-deps.jar"
NCPU = os.cpu_count() or 4


FEATURES = ["d_calendar", "d_conn_enum", "d_cookies", "d_exchange", "d_framing", "d_head", "d_headers", "d_logfiles",
            "d_logger", "d_logjson", "d_response", "d_server", "d_permit_race", "d_sse"]
DRIVER_FEATURE = {
    "conn-enum": "d_conn_enum", "head-gen": "d_head", "head-splits": "d_head", "req-splits": "d_head", "head-tcp": "d_head",
    "resp-gen": "d_response", "chunk-lens": "d_response", "chunk-gen": "d_response", "resp-faults": "d_response",
    "status-all": "d_response", "builder-gen": "d_response", "exchange-gen": "d_exchange", "upload-diskfull": "d_exchange",
    "recv-body": "d_exchange", "limits": "d_exchange", "permit-race": "d_permit_race", "tokens-enum": "d_server",
    "server-stress": "d_server", "sse-replay": "d_sse", "sse-content": "d_sse", "sse-threads": "d_sse",
    "date-sweep": "d_calendar", "json-scalars": "d_logjson", "json-lines": "d_logjson", "logger-threads": "d_logger",
    "logwriter-run": "d_logfiles", "logwriter-crash": "d_logfiles", "fileset-ops": "d_logfiles", "cookie-set": "d_cookies",
    "cookie-req": "d_cookies", "headers-enum": "d_headers", "ascii-ctors": "d_headers", "framing-gen": "d_framing",
    "pipeline-gen": "d_framing",
}


class ToolError(Exception):
    pass


def log(msg):
    print(msg, flush=True)


def run(cmd, cwd=None, env=None, timeout=None, stdout=None):
    e = dict(os.environ)
    if env:
        e.update(env)
    return subprocess.run(cmd, cwd=cwd, env=e, timeout=timeout, stdout=stdout or subprocess.PIPE,
                          stderr=subprocess.STDOUT, text=True)


class Ctx:
    def __init__(self, pid, tier, seed, replay=None):
        self.pid = pid
        self.tier = tier
        self.seed = seed
        self.replay = replay
        self.t0 = time.time()
        self.work = os.path.join(VERIF, "work", pid)
        if not replay:
            shutil.rmtree(self.work, ignore_errors=True)
        os.makedirs(self.work, exist_ok=True)
        self.mc_runs = []
        self.drivers = []
        self.validations = []
        self.failures = []      # dicts: driver, sid, why, events, args
        self.samples = []
        self.notes = []
        self.disabled_features = set()
        self.skipped_drivers = set()
        self.unattributed = []   # rejected scenarios outside this property's clauses (reported, not violations)
        self.assumptions = []
        self.rule = ""
        self.exhaustive = False
        self._tlc_n = 0
        self.scen_total = 0
        self.scen_distinct = set()
        self.level = "model_checking"
        self.extra = {}

    @property
    def quick(self):
        return self.tier == "quick"

    # ------------------------------------------------------------------ build
    def build(self):
        t = time.time()
        env = {"CARGO_NET_OFFLINE": "true"}
        cmd = ["cargo", "build", "--release", "--offline"]
        alt = os.environ.get("VERIF_REPO")
        if alt:
            # development aid only (background runs against a snapshot of the repository while /repo is being
            # patched for seeded changes): the registered commands never set it and always build /repo itself
            cmd += ["--config", 'paths=["%s"]' % alt]
            log(f"[build] NOTE: servlin taken from {alt} instead of /repo (VERIF_REPO is set)")
        r = run(cmd, cwd=HARNESS, env=env, timeout=1800)
        if r.returncode == 0:
            log(f"[build] harness built against /repo working tree in {time.time()-t:.1f}s")
            return
        # The harness calls servlin's `internal` API; a change to the signature of one such function stops the module
        # that calls it from compiling.  That is not a verdict on any property, and it must not take the other modules'
        # checks with it: find the driver modules that still compile (one cargo feature each) and build those.
        errs = "\n".join(l for l in r.stdout.splitlines() if l.startswith("error") or l.lstrip().startswith("-->"))
        key = hashlib.sha1(errs.encode()).hexdigest()
        cache_p = os.path.join(VERIF, "work", "build_probe.json")
        ok = None
        try:
            c = json.load(open(cache_p))
            if c.get("key") == key:
                ok = c["ok"]
        except Exception:
            pass
        if ok is None:
            ok = []
            for f in FEATURES:
                rr = run(cmd + ["--no-default-features", "--features", f], cwd=HARNESS, env=env, timeout=1800)
                if rr.returncode == 0:
                    ok.append(f)
            os.makedirs(os.path.dirname(cache_p), exist_ok=True)
            json.dump({"key": key, "ok": ok}, open(cache_p, "w"))
        if not ok:
            tail = "\n".join(r.stdout.splitlines()[-40:])
            raise ToolError("harness build failed (servlin no longer compiles with the harness?)\n" + tail)
        rr = run(cmd + ["--no-default-features", "--features", ",".join(ok)], cwd=HARNESS, env=env, timeout=1800)
        if rr.returncode != 0:
            raise ToolError("harness build failed\n" + "\n".join(rr.stdout.splitlines()[-40:]))
        self.disabled_features = set(FEATURES) - set(ok)
        first = next((l for l in r.stdout.splitlines() if l.startswith("error")), "")
        msg = (f"driver module(s) {sorted(self.disabled_features)} of the harness do not compile against this tree "
               f"({first.strip()[:160]}): servlin's internal API changed under them; their drivers are skipped")
        log("[build] NOTE: " + msg)
        self.notes.append(msg)
        log(f"[build] harness built (reduced) in {time.time()-t:.1f}s")

    # ------------------------------------------------------------------ drivers
    def drive(self, driver, name=None, timeout=1500, env=None, **opts):
        """Runs `vh <driver> --out work/<name>.ndjson` and returns the trace path."""
        name = name or driver
        out = os.path.join(self.work, name + ".ndjson")
        if DRIVER_FEATURE.get(driver) in self.disabled_features:
            log(f"[drive] {driver}: SKIPPED, its module does not compile against this tree")
            self.skipped_drivers.add(name)
            self.skipped_drivers.add(driver)
            open(out, "w").close()
            return out
        cmd = [VH, driver, "--out", out, "--seed", str(self.seed)]
        for k, v in opts.items():
            cmd += ["--" + k.replace("_", "-"), str(v)]
        t = time.time()
        logf = os.path.join(self.work, name + ".driver.log")
        with open(logf, "w") as lf:
            try:
                r = subprocess.run(cmd, cwd=self.work, stdout=lf, stderr=subprocess.STDOUT, timeout=timeout,
                                   env=dict(os.environ, **(env or {})))
            except subprocess.TimeoutExpired:
                raise ToolError(f"driver {driver} timed out after {timeout}s (log {logf})")
        if r.returncode != 0:
            tail = "".join(open(logf, errors="replace").readlines()[-15:])
            raise ToolError(f"driver {driver} exited {r.returncode}\n{tail}")
        d = {"driver": driver, "name": name, "args": opts, "trace": out, "wall_s": round(time.time() - t, 2)}
        self.drivers.append(d)
        log(f"[drive] {driver} {opts} -> {os.path.basename(out)} in {d['wall_s']}s")
        return out

    # ------------------------------------------------------------------ TLC
    def _java(self, xmx="4g", deque=False):
        cmd = ["java", "-XX:+UseParallelGC", "-Xss1g", "-Xmx" + xmx]
        if deque:
            cmd.append("-Dtlc2.tool.queue.IStateQueue=StateDeque")
        cmd += ["-cp", TLA_JAR + ":" + TLA_DEPS, "tlc2.TLC"]
        return cmd

    def _metadir(self):
        self._tlc_n += 1
        d = os.path.join(self.work, f"tlc_{self._tlc_n}")
        shutil.rmtree(d, ignore_errors=True)
        return d

    def mc(self, module, cfg=None, workers=None, timeout=900, xmx="8g", simulate=None, expect_error=None,
           env=None, label=None):
        """Model-checks spec/<module>.tla with spec/<cfg>.cfg.  Returns the stats dict."""
        cfg = cfg or module
        workers = workers or min(12, NCPU)
        meta = self._metadir()
        cmd = self._java(xmx) + ["-workers", str(workers), "-coverage", "1", "-metadir", meta, "-noGenerateSpecTE",
                                 "-config", cfg + ".cfg"]
        if simulate:
            cmd += ["-simulate", simulate]
        cmd.append(module + ".tla")
        t = time.time()
        try:
            r = run(cmd, cwd=SPEC, timeout=timeout, env=env)
        except subprocess.TimeoutExpired:
            raise ToolError(f"TLC model checking of {module}/{cfg} timed out after {timeout}s")
        finally:
            shutil.rmtree(meta, ignore_errors=True)
        outp = r.stdout
        logf = os.path.join(self.work, f"mc_{cfg}.log")
        open(logf, "w").write(outp)
        st = parse_tlc_stats(outp)
        st.update({"module": module, "cfg": cfg, "label": label or cfg, "wall_s": round(time.time() - t, 1), "log": logf})
        err = re.search(r"Error: (.*)", outp)
        ok = "No error has been found" in outp or (simulate and r.returncode == 0 and not err)
        if expect_error:
            ok = bool(err) and expect_error in outp
            st["expected_error"] = expect_error
        st["ok"] = bool(ok)
        self.mc_runs.append(st)
        log(f"[mc] {cfg}: {st.get('distinct', 0)} distinct states, {st.get('generated', 0)} generated, "
            f"{st['wall_s']}s, {'ok' if ok else 'FAILED'}")
        if not ok:
            tail = "\n".join(outp.splitlines()[-60:])
            raise ToolError(f"model checking of {cfg} failed: the specification itself violates a property "
                            f"(spec error, not a verdict on the code)\n{tail}\nlog: {logf}")
        return st

    def apalache(self, module, args, label, timeout=900):
        """Runs `apalache-mc check <args> <module>.tla` (symbolic, unbounded in the constants); the obligation holds
        iff Apalache reports no error."""
        outdir = os.path.join(self.work, "apalache")
        cmd = ["apalache-mc", "check", "--out-dir=" + outdir] + args + [module + ".tla"]
        t = time.time()
        try:
            r = run(cmd, cwd=SPEC, timeout=timeout)
        except subprocess.TimeoutExpired:
            raise ToolError(f"apalache {module} {args} timed out")
        ok = "EXITCODE: OK" in r.stdout and "The outcome is: NoError" in r.stdout
        st = {"module": module, "cfg": " ".join(args), "label": label, "engine": "apalache", "ok": ok,
              "wall_s": round(time.time() - t, 1)}
        self.mc_runs.append(st)
        log(f"[apalache] {module} {' '.join(args)}: {'ok' if ok else 'FAILED'} in {st['wall_s']}s")
        if not ok:
            raise ToolError(f"apalache obligation failed ({label}): specification error, not a verdict on the code\n"
                            + "\n".join(r.stdout.splitlines()[-25:]))
        return st

    def tlc_eval(self, module, cfg=None, timeout=900, xmx="8g", env=None, workers=1):
        """Runs TLC on a generator module (GEN use); returns stdout."""
        cfg = cfg or module
        meta = self._metadir()
        cmd = self._java(xmx) + ["-workers", str(workers), "-metadir", meta, "-noGenerateSpecTE", "-config",
                                 cfg + ".cfg", module + ".tla"]
        try:
            r = run(cmd, cwd=SPEC, timeout=timeout, env=env)
        except subprocess.TimeoutExpired:
            raise ToolError(f"TLC generation {module} timed out")
        finally:
            shutil.rmtree(meta, ignore_errors=True)
        open(os.path.join(self.work, f"gen_{cfg}.log"), "w").write(r.stdout)
        return r.stdout

    def _validate_one(self, trace_spec, cfg, trace, report, timeout, xmx, extra_env):
        meta = trace + ".meta"
        shutil.rmtree(meta, ignore_errors=True)
        cmd = self._java(xmx, deque=True) + ["-workers", "1", "-metadir", meta, "-noGenerateSpecTE", "-config",
                                             cfg + ".cfg", trace_spec + ".tla"]
        env = {"TRACE": trace, "REPORT": report}
        env.update(extra_env or {})
        t = time.time()
        try:
            r = run(cmd, cwd=SPEC, env=env, timeout=timeout)
            outp = r.stdout
        except subprocess.TimeoutExpired:
            outp = "TIMEOUT"
        finally:
            shutil.rmtree(meta, ignore_errors=True)
        open(trace + ".tlc.log", "w").write(outp)
        return outp, time.time() - t

    def validate(self, trace_spec, trace, driver, cfg=None, shards=None, timeout=1200, xmx="3g", env=None,
                 sample=True, keep=None):
        """Validates a recorded trace (impl -> spec).  The trace is split at Reset events into
        shards, one TLC process each.  Returns (nvalid, bad) and records failures."""
        cfg = cfg or trace_spec
        if driver in self.skipped_drivers:
            self.validations.append({"trace_spec": trace_spec, "driver": driver, "events": 0, "scenarios": 0, "accepted": 0,
                                     "rejected": 0, "tlc_states": 0, "shards": 0, "wall_s": 0,
                                     "skipped": "driver module does not compile against this tree"})
            return
        scen = split_scenarios(trace)
        nlines = sum(len(s) for s in scen)
        lint_bigints(trace)
        if sample:
            self._sample(driver, scen)
        self._count(scen)
        if shards is None:
            shards = max(1, min(12, nlines // 4000))
        shards = max(1, min(shards, len(scen)))
        paths = write_shards(trace, scen, shards)
        results = []
        t = time.time()
        with cf.ThreadPoolExecutor(max_workers=min(shards, 12)) as ex:
            futs = []
            for p in paths:
                futs.append(ex.submit(self._validate_one, trace_spec, cfg, p, p + ".report.json", timeout, xmx, env))
            for p, f in zip(paths, futs):
                results.append((p, f.result()))
        nvalid = 0
        bad = []
        states = 0
        for p, (outp, secs) in results:
            rep = p + ".report.json"
            if not os.path.exists(rep):
                m = re.search(r"Error: (.*)", outp)
                tail = "\n".join(outp.splitlines()[-30:])
                raise ToolError(f"trace validation {trace_spec} on {os.path.basename(p)} produced no report "
                                f"({m.group(1) if m else 'no error line'})\n{tail}\nlog: {p}.tlc.log")
            rj = json.load(open(rep))
            nvalid += rj["nvalid"]
            for b in rj["bad"]:
                bad.append(b)
            states += parse_tlc_stats(outp).get("distinct", 0)
            # An invariant / action property of the specification itself violated by a real trace
            m = re.search(r"Error: (Invariant|Action property) (\S+) is violated", outp)
            if m and m.group(2) != "Report":
                bad.append([0, 0, ["SpecProperty", m.group(2)]])
        by_sid = {}
        for s in scen:
            if s:
                by_sid.setdefault(s[0].get("sid"), s)
        if keep:
            other = [b for b in bad if not keep(b[2])]
            bad = [b for b in bad if keep(b[2])]
            if other:
                log(f"[val] {len(other)} rejected scenario(s) concern another property's clause and are not "
                    f"attributed to {self.pid}")
                self.unattributed.append({"driver": driver, "trace_spec": trace_spec, "count": len(other),
                                          "first": [b[2] for b in other[:3]]})
        for b in bad:
            sid, line, why = b[0], b[1], b[2]
            self.failures.append({"driver": driver, "trace_spec": trace_spec, "sid": sid, "why": why,
                                  "events": by_sid.get(sid, [])[:200], "trace": trace})
        v = {"trace_spec": trace_spec, "driver": driver, "events": nlines, "scenarios": len(scen), "accepted": nvalid,
             "rejected": len(bad), "tlc_states": states, "shards": shards, "wall_s": round(time.time() - t, 1)}
        self.validations.append(v)
        log(f"[val] {trace_spec} <- {driver}: {len(scen)} scenarios / {nlines} events, accepted {nvalid}, "
            f"rejected {len(bad)}, {v['wall_s']}s in {shards} shard(s)")
        return nvalid, bad

    def _sample(self, driver, scen, k=2):
        for s in scen[:k]:
            self.samples.append({"driver": driver, "events": [trunc(e) for e in s[:8]]})

    def _count(self, scen):
        for s in scen:
            self.scen_total += 1
            if len(s) >= 2:
                h = hashlib.blake2b(digest_size=8)
                for e in s:
                    h.update(json.dumps({k: v for k, v in e.items() if k not in ("sid", "seq")}, sort_keys=True).encode())
                self.scen_distinct.add(h.digest())

    def fail_direct(self, driver, sid, why, events=None, trace=None):
        """A failure established by the orchestrator itself from TLC output (GEN/replay use)."""
        self.failures.append({"driver": driver, "trace_spec": None, "sid": sid, "why": why, "events": events or [],
                              "trace": trace})

    def write_wall(self):
        return time.time() - self.t0

    # ------------------------------------------------------------------ verdict
    def finish(self):
        if self.skipped_drivers and not self.drivers:
            raise ToolError("none of this property's drivers compiles against this tree (servlin's internal API changed "
                            "under the harness): no verdict")
        known = [k for k in json.load(open(os.path.join(VERIF, "known_findings.json")))["findings"]
                 if k.get("property") == self.pid and k.get("status") == "known"]
        printed_known = {}
        violations = []
        for f in self.failures:
            k = match_known(known, f)
            if k:
                printed_known.setdefault(k["key"], [k, 0])[1] += 1
            else:
                violations.append(f)
        for key, (k, n) in printed_known.items():
            log(f"KNOWN-FINDING: property={self.pid} {k['text']} [{key}; {n} scenario(s) in this run]")
        vdir = os.path.join(self.work, "replay")
        os.makedirs(vdir, exist_ok=True)
        shown = 0
        seen = set()
        for f in violations[:60]:
            sig = (f["driver"], json.dumps(f["why"])[:80])
            path = os.path.join(vdir, f"{f['driver']}_{f['sid']}.json")
            drv = next((d for d in self.drivers if d["driver"] == f["driver"] or d["name"] == f["driver"]), None)
            json.dump({"property": self.pid, "driver": f["driver"], "driver_args": drv["args"] if drv else {},
                       "seed": self.seed, "tier": self.tier, "sid": f["sid"], "why": f["why"], "events": f["events"]},
                      open(path, "w"), indent=1)
            if sig in seen and shown >= 3:
                continue
            seen.add(sig)
            if shown < 10:
                log(f"VIOLATION property={self.pid} replay={path}")
                log(f"  driver={f['driver']} sid={f['sid']} why={json.dumps(f['why'])[:300]}")
                shown += 1
        if len(violations) > shown:
            log(f"  ... and {len(violations)-shown} more violating scenario(s); replay files (first 60) in {vdir}")
        if not self.replay:
            self.write_evidence(len(violations), printed_known)
        return 1 if violations else 0

    def write_evidence(self, nviol, printed_known):
        states = sum(m.get("distinct", 0) for m in self.mc_runs)
        trans = sum(m.get("generated", 0) for m in self.mc_runs)
        accepted = sum(v["accepted"] for v in self.validations)
        cov = {
            "states": states,
            "transitions": trans,
            "traces_validated_against_impl": accepted,
            "samples": self.samples[:6] or [{"note": "no trace sample recorded"}],
            "evaluations": self.scen_total,
            "distinct_nontrivial": len(self.scen_distinct),
            "rule": self.rule or ("scenarios are generated by the drivers listed under `drivers`; a scenario is "
                                  "non-trivial if it has at least one event besides its Reset and distinct if the "
                                  "hash of its events (scenario id removed) differs from every other scenario's"),
            "exhaustive": self.exhaustive,
            "mc_runs": [{k: v for k, v in m.items() if k != "log"} for m in self.mc_runs],
            "drivers": [{k: v for k, v in d.items() if k != "trace"} for d in self.drivers],
            "trace_validations": self.validations,
            "tlc_trace_states": sum(v["tlc_states"] for v in self.validations),
            "known_findings_seen": {k: n for k, (_, n) in printed_known.items()},
            "notes": self.notes,
            "rejected_outside_this_property": self.unattributed,
        }
        cov.update(self.extra)
        ev = {"property_id": self.pid, "tier": self.tier, "seed": self.seed, "level": self.level, "coverage": cov,
              "assumptions": self.assumptions, "wall_s": round(time.time() - self.t0, 1), "violations": nviol}
        os.makedirs(os.path.join(VERIF, "evidence"), exist_ok=True)
        json.dump(ev, open(os.path.join(VERIF, "evidence", self.pid + ".json"), "w"), indent=1)


# ---------------------------------------------------------------------- helpers
def trunc(e, n=160):
    out = {}
    for k, v in e.items():
        s = json.dumps(v)
        out[k] = v if len(s) <= n else (s[:n] + "...")
    return out


def parse_tlc_stats(outp):
    st = {}
    m = None
    for m in re.finditer(r"(\d+) states generated, (\d+) distinct states found", outp):
        pass
    if m:
        st["generated"] = int(m.group(1))
        st["distinct"] = int(m.group(2))
    m = re.search(r"The depth of the complete state graph search is (\d+)", outp)
    if m:
        st["depth"] = int(m.group(1))
    # -coverage 1: "<Action line a, col b to line c, col d of module M>: distinct:total"
    acts = {}
    for m in re.finditer(r"^<(\w+) line \d+, col \d+ to line \d+, col \d+ of module (\w+)>: (\d+):(\d+)", outp, re.M):
        acts[m.group(2) + "!" + m.group(1)] = int(m.group(4))
    if acts:
        st["actions"] = acts
        st["actions_never_taken"] = sorted(a for a, n in acts.items() if n == 0 and not a.endswith("Init"))
    return st


def split_scenarios(trace):
    scen = []
    cur = None
    with open(trace) as f:
        for line in f:
            if not line.strip():
                continue
            e = json.loads(line)
            if e.get("ev") == "Reset" or cur is None:
                cur = []
                scen.append(cur)
            cur.append(e)
    return scen


def write_shards(trace, scen, shards):
    if shards <= 1:
        return [trace]
    total = sum(len(s) for s in scen)
    per = total / shards
    paths = []
    i = 0
    for k in range(shards):
        p = f"{trace}.shard{k}"
        n = 0
        with open(p, "w") as f:
            while i < len(scen) and (n < per or k == shards - 1):
                for e in scen[i]:
                    f.write(json.dumps(e) + "\n")
                n += len(scen[i])
                i += 1
        if n:
            paths.append(p)
    return paths


BIG = re.compile(r"(?<![\w.\"])-?\d{10,}(?![\w.\"])")


def lint_bigints(trace):
    """TLC integers are 32-bit and its JSON reader mis-reads larger ones silently (DESIGN.md section 3):
    a trace that carries one is a harness bug, never a verdict."""
    with open(trace) as f:
        for n, line in enumerate(f, 1):
            for m in BIG.finditer(line):
                if abs(int(m.group(0))) >= 2**31:
                    raise ToolError(f"{trace}:{n}: integer {m.group(0)} >= 2^31 in a trace (must be a digit tuple)")


def match_known(known, f):
    for k in known:
        m = k.get("match", {})
        if m.get("driver") and m["driver"] != f["driver"]:
            continue
        if m.get("why_regex") and not re.search(m["why_regex"], json.dumps(f["why"])):
            continue
        if m.get("events_regex") and not re.search(m["events_regex"], json.dumps(f["events"])):
            continue
        return k
    return None
