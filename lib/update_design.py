#!/usr/bin/env python3
"""Splices lib/sec11.md (with the generated seeded table and lib/growth.md) into DESIGN.md as section 11."""
import os
import subprocess
V = os.path.dirname(os.path.dirname(os.path.abspath(__file__)))
s = open(os.path.join(V, "DESIGN.md")).read()
sec = open(os.path.join(V, "lib", "sec11.md")).read()
table = subprocess.run(["python3", os.path.join(V, "lib", "seeded_table.py")], capture_output=True, text=True).stdout
growth = open(os.path.join(V, "lib", "growth.md")).read() if os.path.exists(os.path.join(V, "lib", "growth.md")) else "(nothing yet)\n"
sec = sec.replace("SEEDTABLE\n", table).replace("GROWTH\n", growth)
a = s.find("## 11. Build record")
b = s.index("## Appendix A — traceability")
if a < 0:
    a = b
s = s[:a] + sec + s[b:]
# a status line under every per-property heading of section 4 (regenerated)
import glob
import json
import re
seeds = {}
for d in sorted(glob.glob(os.path.join(V, "seeded", "*", "meta.json"))):
    m = json.load(open(d))
    seeds.setdefault(m["property"], []).append(m["name"] + ("" if not m.get("history") else "*"))
out = []
lines = s.split("\n")
i = 0
while i < len(lines):
    line = lines[i]
    out.append(line)
    m = re.match(r"### (C\d\d) — ", line)
    if m and i < 1400:
        pid = m.group(1)
        if i + 2 < len(lines) and lines[i + 2].startswith("> **Built.**"):
            i += 2          # drop the old status line (and the blank line before it)
        ev = os.path.join(V, "evidence", pid + ".json")
        extra = ""
        if os.path.exists(ev):
            e = json.load(open(ev))
            c = e["coverage"]
            extra = (f" Last {e['tier']} run: {c.get('states', 0):,} TLC states, {c.get('traces_validated_against_impl', 0):,} "
                     f"scenarios of the real code validated, {e['wall_s']:.0f} s.")
        sd = ", ".join(seeds.get(pid, [])) or "none yet"
        out.append("")
        out.append(f"> **Built.** Pipeline `lib/props.py` (`@prop(\"{pid}\")`); what runs today and how it deviates from the plan "
                   f"below is recorded in section 11.{extra} Seeded changes: {sd} (* = first missed, then caught after the "
                   f"check was strengthened; see 11.5).")
    i += 1
s = "\n".join(out)
open(os.path.join(V, "DESIGN.md"), "w").write(s)
print("DESIGN.md section 11 updated")
