#!/usr/bin/env python3
"""Splices lib/sec11.md (with the generated seeded table and lib/growth.md) into DESIGN.md as section 11."""
import os
import subprocess
V = os.path.dirname(os.path.dirname(os.path.abspath(__file__)))
s = open(os.path.join(V, "DESIGN.md")).read()
sec = open(os.path.join(V, "lib", "sec11.md")).read()
table = subprocess.run(["python3", os.path.join(V, "lib", "seeded_table.py")], capture_output=True, text=True).stdout
growth = open(os.path.join(V, "lib", "growth.md")).read() if os.path.exists(os.path.join(V, "lib", "growth.md")) else "(nothing yet)\n"
sec = sec.replace("SEEDTABLE\n", table).replace("GROWTH\n", growth)
a = s.find("## 11. Build record")
b = s.index("## Appendix A — traceability")
if a < 0:
    a = b
s = s[:a] + sec + s[b:]
open(os.path.join(V, "DESIGN.md"), "w").write(s)
print("DESIGN.md section 11 updated")
