import json,sys
props={json.loads(l)['id']:json.loads(l) for l in open('/verif/properties.jsonl')}
def prompt(name, avoid=""):
    pid=name.split('-')[0]; p=props[pid]; d=f"/tmp/seed/{name}"
    anchors="\n".join(f"  - {m['name']} ({m.get('where','')})" for m in p['anchors'].get('mechanism',[]))
    return f"""You are working alone in a scratch git worktree of the Rust HTTP server library mleonhard/servlin at {d} (already created, a checkout of the current HEAD). Work ONLY inside {d}. Do not read, list or modify /repo, /verif or any other directory outside {d} (except reading the Rust toolchain/std docs and ~/.cargo registry sources if you need them). The sandbox has no network: always pass --offline to cargo; no new crates can be added (use only what Cargo.toml already lists, including dev-dependencies). Other agents work in sibling worktrees of the same repository at the same time: NEVER use `git stash` (the stash is shared between worktrees) -- to test without your change use `git diff -- src > /tmp/seed/{name}/seed/patch.diff; git apply -R seed/patch.diff; ...; git apply seed/patch.diff`.

GOAL: produce a *seeded defect*: a small, realistic change to the library source (files under {d}/src only) that BREAKS the property below, while
  (a) the crate still compiles both with `cargo build --offline` and `cargo build --offline --features verif_hooks`, and
  (b) ALL existing tests still pass with the change: `cargo test --offline --tests --no-fail-fast` (every existing test binary `ok`).
The change must need something specific to manifest -- a particular thread interleaving, a crash or fault at a particular point, a multi-step sequence of operations, an unusual input or configuration, or two cooperating sites that each look fine alone -- NOT something that ordinary use would expose at once. It should look like a plausible slip: a refactoring, an "optimisation", a simplification, an off-by-one at a boundary, a changed order of two statements, a lost special case. Do not add comments that reveal it. Keep it small (typically 1-15 changed lines). Do not edit existing tests, Cargo.toml, or src/verif.rs, and do not remove or alter lines that mention `verif_hooks` / `crate::verif::` (you may move code around them carefully if unavoidable, but prefer sites that do not touch them).

PROPERTY {pid}: {p['title']}
{p['statement']}
Quantified over: {p['quantifier']['text']}
Code anchors:
{anchors}
{avoid}
DELIVERABLES (all inside {d}):
  1. The change applied in the worktree (left uncommitted).
  2. {d}/tests/seed_demo.rs : a new integration test file (one or more #[test] fns, may use the crate's dev-dependencies and helpers you write inline; if you need tests/test_util, `mod` it the same way existing tests do) that FAILS with your change and PASSES without it, deterministically (no flaky timing: if threads are needed, coordinate them with channels/barriers or retry loops with generous bounds).
  3. {d}/seed/patch.diff : output of `git diff -- src` (must apply with `git apply` to a clean checkout of HEAD).
  4. {d}/seed/seed_demo.rs : a copy of tests/seed_demo.rs.
  5. {d}/seed/notes.md : what the change is (file, function), exactly what it needs in order to manifest (start that paragraph with "Needs to manifest:"), why the existing tests do not notice it, and the commands you ran with their outcomes.
VERIFY YOURSELF before finishing, and report the outcomes:
  - both builds succeed;
  - with the change: `cargo test --offline --test seed_demo` FAILS; `cargo test --offline --tests --no-fail-fast` shows every OTHER test binary passing;
  - without the change (git apply -R seed/patch.diff): `cargo test --offline --test seed_demo` PASSES; then re-apply (git apply seed/patch.diff) and make sure `git diff --stat -- src` is non-empty.
If your first idea turns out to be caught by an existing test or does not actually break the property, pick another site. Final answer: a short summary (site, what it needs to manifest, verification outcomes)."""
avoid=json.load(open('/tmp/seed/avoid.json'))
for n in sys.argv[1:]:
    a=avoid.get(n,"")
    if a: a="NOTE: "+a+"\n"
    open(f"/tmp/seed/{n}.prompt","w").write(prompt(n,a))
