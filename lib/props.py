"""Per-property pipelines.  Each takes an orch.Ctx, runs MC / drivers / trace validation and
leaves failures in ctx.failures; orch.Ctx.finish() turns them into the verdict."""
import orch

PIPELINES = {}
# driver name -> (trace spec, cfg) used by --replay
TRACE_SPEC = {}


def prop(pid):
    def deco(f):
        PIPELINES[pid] = f
        return f
    return deco


def replay(ctx, rp):
    """Re-runs exactly one recorded scenario against the current tree and validates it."""
    driver = rp["driver"]
    opts = dict(rp.get("driver_args", {}))
    opts["only_sid"] = rp["sid"]
    name = next((n for n in TRACE_SPEC if n == driver), None)
    if name is None:
        raise orch.ToolError(f"no trace specification registered for driver {driver}")
    real_driver, spec, cfg = TRACE_SPEC[name]
    tr = ctx.drive(real_driver, name=driver, **opts)
    ctx.validate(spec, tr, driver, cfg=cfg, shards=1)


def reg(name, spec, cfg=None, driver=None):
    TRACE_SPEC[name] = (driver or name, spec, cfg or spec)


# ---------------------------------------------------------------------------------- C05
reg("conn-enum", "Trace_Conn")


@prop("C05")
def c05(ctx):
    ctx.mc("MC_Conn", workers=8)
    if ctx.quick:
        tr = ctx.drive("conn-enum", depth=3, sample=2000, sample_depth=5)
    else:
        tr = ctx.drive("conn-enum", depth=4, sample=100000, sample_depth=5, timeout=3000)
    ctx.validate("Trace_Conn", tr, "conn-enum", timeout=3000)
    ctx.exhaustive = True
    ctx.rule = ("every sequence of the 15 HttpConn operation instances up to depth 3 (quick) / 4 (thorough) over 13 "
                "client scripts, plus random depth-5 sequences, each run on a real HttpConn over loopback; a scenario "
                "is non-trivial if it has at least one call and distinct if its (script, calls, results) differ")
    ctx.assumptions += ["the client has pre-written its script and half-closed, so each call is deterministic",
                        "wire projection is lexical: status code + presence of `connection: close`"]
