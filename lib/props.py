"""Per-property pipelines.  Each takes an orch.Ctx, runs MC / drivers / trace validation and
leaves failures in ctx.failures; orch.Ctx.finish() turns them into the verdict."""
import orch

PIPELINES = {}
# driver name -> (trace spec, cfg) used by --replay
TRACE_SPEC = {}


def prop(pid):
    def deco(f):
        PIPELINES[pid] = f
        return f
    return deco


def replay(ctx, rp):
    """Re-runs exactly one recorded scenario against the current tree and validates it."""
    driver = rp["driver"]
    opts = dict(rp.get("driver_args", {}))
    opts["only_sid"] = rp["sid"]
    name = next((n for n in TRACE_SPEC if n == driver), None)
    if name is None:
        raise orch.ToolError(f"no trace specification registered for driver {driver}")
    real_driver, spec, cfg = TRACE_SPEC[name]
    tr = ctx.drive(real_driver, name=driver, **opts)
    ctx.validate(spec, tr, driver, cfg=cfg, shards=1)


def reg(name, spec, cfg=None, driver=None):
    TRACE_SPEC[name] = (driver or name, spec, cfg or spec)


# ---------------------------------------------------------------------------------- C05
reg("conn-enum", "Trace_Conn")


@prop("C05")
def c05(ctx):
    ctx.mc("MC_Conn", workers=8)
    if ctx.quick:
        tr = ctx.drive("conn-enum", depth=3, sample=2000, sample_depth=5)
    else:
        tr = ctx.drive("conn-enum", depth=4, sample=100000, sample_depth=5, timeout=3000)
    ctx.validate("Trace_Conn", tr, "conn-enum", timeout=3000)
    ctx.exhaustive = True
    ctx.rule = ("every sequence of the 15 HttpConn operation instances up to depth 3 (quick) / 4 (thorough) over 13 "
                "client scripts, plus random depth-5 sequences, each run on a real HttpConn over loopback; a scenario "
                "is non-trivial if it has at least one call and distinct if its (script, calls, results) differ")
    ctx.assumptions += ["the client has pre-written its script and half-closed, so each call is deterministic",
                        "wire projection is lexical: status code + presence of `connection: close`"]


# ---------------------------------------------------------------------------------- C14
reg("headers-enum", "Trace_Headers")
reg("ascii-ctors", "Trace_Headers")
reg("framing-gen", "Trace_Framing")
reg("pipeline-gen", "Trace_Framing")


@prop("C14")
def c14(ctx):
    ctx.mc("MC_Headers", workers=8)
    if ctx.quick:
        tr = ctx.drive("headers-enum", depth=4, sample=3000, sample_depth=12)
        fr = ctx.drive("framing-gen", n=1500, cross=0)
    else:
        tr = ctx.drive("headers-enum", depth=5, sample=20000, sample_depth=12, timeout=3000)
        fr = ctx.drive("framing-gen", n=20000, cross=1)
    ctx.validate("Trace_Headers", tr, "headers-enum", timeout=3000)
    ct = ctx.drive("ascii-ctors", n=300 if ctx.quick else 5000)
    ctx.validate("Trace_Headers", ct, "ascii-ctors")
    # the header list a handler sees = the list sent minus the consumed framing fields, in order
    ctx.validate("Trace_Framing", fr, "framing-gen",
                 keep=lambda why: why[0] in ("Panic", "Hang") or (why[0] == "Mismatch" and "headers" in why[1]))
    ctx.exhaustive = True
    ctx.rule = ("every sequence of the 18 HeaderList operation instances (add x 6 names, get_only/get_all/remove_only/"
                "remove_all x 3 names) to depth 4 (quick) / 5 (thorough) plus random depth-12 sequences; generated "
                "requests with 0..16 fields in shuffled order through read_http_request; every AsciiString constructor "
                "on ASCII and non-ASCII input. Distinct = differing event content")
    ctx.assumptions += ["values are made distinct (v0, v1, ...) so any permutation is visible"]


# ---------------------------------------------------------------------------------- C03
@prop("C03")
def c03(ctx):
    ctx.mc("MC_Conn", workers=8)
    if ctx.quick:
        fr = ctx.drive("framing-gen", n=2000, cross=1)
        pl = ctx.drive("pipeline-gen", n=3000)
    else:
        fr = ctx.drive("framing-gen", n=60000, cross=1)
        pl = ctx.drive("pipeline-gen", n=60000)
    ctx.validate("Trace_Framing", fr, "framing-gen")
    ctx.validate("Trace_Framing", pl, "pipeline-gen")
    # chunked / gzip are refused when the body is read: the chunked and gzip client scripts of conn-enum
    tr = ctx.drive("conn-enum", depth=2, sample=0)
    ctx.validate("Trace_Conn", tr, "conn-enum")
    ctx.rule = ("cross product method class x Content-Length multiset x Transfer-Encoding multiset x Expect (single "
                "messages) plus random header multisets, and wires of 1..8 concatenated messages (valid, bodiless, "
                "unknown-length, ambiguous) with bodies that look like requests, read back under random fragmentation")


# ---------------------------------------------------------------------------------- C01 / C02
reg("head-gen", "Trace_Head")
reg("head-splits", "Trace_Head")
reg("head-tcp", "Trace_Head")

C01_TAGS = ("BAD-panic", "BAD-trunc", "BAD-consumed", "BAD-split", "BAD-loop", "BAD-task-panic", "BAD-no-answer")
C02_TAGS = ("BAD-panic", "BAD-consumed", "BAD-accept", "BAD-reject", "BAD-free", "BAD-split-accept", "BAD-tcp-status")


def _tags(prefixes):
    return lambda why: any(t.startswith(p) for t in why for p in prefixes)


@prop("C01")
def c01(ctx):
    ctx.mc("ReadHead", "MC_ReadHead" if ctx.quick else "MC_ReadHead6", workers=12, timeout=1800)
    sp = ctx.drive("head-splits", maxlen=5 if ctx.quick else 6, extra=0 if ctx.quick else 1, timeout=3000)
    ctx.validate("Trace_Head", sp, "head-splits", keep=_tags(C01_TAGS))
    hg = ctx.drive("head-gen", n=3000 if ctx.quick else 100000)
    ctx.validate("Trace_Head", hg, "head-gen", keep=_tags(C01_TAGS), shards=12, timeout=3000)
    tcp = ctx.drive("head-tcp", n=200 if ctx.quick else 3000)
    ctx.validate("Trace_Head", tcp, "head-tcp", keep=_tags(C01_TAGS))
    ctx.exhaustive = True
    ctx.rule = ("(a) every string up to length 5 (quick) / 6 (thorough) over {a, SP, ':', CR, LF, '/'} (+0x80, NUL, "
                "HTAB thorough) x buffer sizes 4 and 6, and eight short heads x five buffer sizes, each under EVERY "
                "partition into reads (the set of distinct outcomes is logged: it must be a singleton equal to the "
                "oracle); (b) grammar-derived heads over all byte values with 1-2 byte mutations, sizes up to 8192+64, "
                "under a random partition and random end of stream; (c) a sample through a real server over TCP")
    ctx.assumptions += ["a hang is observed as a future still pending after len+6 polls with nothing left to deliver"]


@prop("C02")
def c02(ctx):
    ctx.mc("ReadHead", "MC_ReadHead", workers=12)
    hg = ctx.drive("head-gen", n=6000 if ctx.quick else 200000)
    ctx.validate("Trace_Head", hg, "head-gen", keep=_tags(C02_TAGS), shards=12, timeout=3000)
    tcp = ctx.drive("head-tcp", n=100 if ctx.quick else 2000)
    ctx.validate("Trace_Head", tcp, "head-tcp", keep=_tags(C02_TAGS))
    ctx.rule = ("heads generated from the RFC 7230 section 3 grammar (every tchar in methods/names, every VCHAR/SP/HTAB "
                "in values, 0..40 fields, OWS variants) and their 1-2 byte substitutions/insertions/deletions; each "
                "classified by Head!RefParse as must-accept (fields compared exactly), must-reject (error class "
                "compared) or free (internal consistency only)")
    ctx.level = "model_checking"


# ---------------------------------------------------------------------------------- C06 C07 C08 C20
for _d in ("resp-gen", "resp-faults", "status-all"):
    reg(_d, "Trace_Response")
reg("chunk-lens", "Trace_Chunked")
reg("chunk-gen", "Trace_Chunked")


@prop("C06")
def c06(ctx):
    ctx.mc("MC_Chunked", workers=8)
    tr = ctx.drive("resp-gen", n=600 if ctx.quick else 6000, big=0 if ctx.quick else 1, timeout=3000)
    ctx.validate("Trace_Response", tr, "resp-gen", shards=8, timeout=3000)
    ctx.rule = ("random status 100..999 x all ContentType variants x 0..20 user fields (names over all tchar, names "
                "colliding case-insensitively with automatic fields) x body variants Vec/static/File/TempFile/event "
                "stream x sizes {0,1,2,17,1000,65535,65536,65537,200k (+1 MiB+1, 3 MiB thorough)} x writer schedules "
                "(all, 1 byte, 7 bytes with Pending, cycling sizes); the first schedule fixes the bytes, every other "
                "must reproduce them")


@prop("C07")
def c07(ctx):
    ctx.mc("MC_Chunked", workers=8)
    tr = ctx.drive("chunk-lens", hi=65528)
    ctx.validate("Trace_Chunked", tr, "chunk-lens", shards=12, sample=True)
    tr2 = ctx.drive("chunk-gen", n=400 if ctx.quick else 5000, timeout=3000)
    ctx.validate("Trace_Chunked", tr2, "chunk-gen", shards=4 if ctx.quick else 12)
    ctx.exhaustive = True
    ctx.rule = ("every piece length 1..65528 through copy_chunked_async (exhaustive), plus random streams of 0..12 "
                "pieces with adversarial lengths (1, 15/16/17, 255/256/257, 4095..4097, 65527..65529, 65535, 65536, "
                "100000: the source offers more than the encoder asks) with source errors and writer failures at and "
                "inside chunk boundaries; the output is walked by the sizes it declares and judged by the RFC decoder")


@prop("C08")
def c08(ctx):
    ctx.mc("MC_Conn", workers=8)
    tr = ctx.drive("resp-faults", body=300 if ctx.quick else 4096, timeout=3000)
    ctx.validate("Trace_Response", tr, "resp-faults", shards=8)
    ctx.exhaustive = True
    ctx.level = "fault_enumeration"
    ctx.rule = ("8 responses (text, 204, 5xx+close, user header, file, temp file, static, event stream) x a write error "
                "after EVERY accepted-byte count 0..len+1 x two write granularities; body file shorter by "
                "{all, all-1, half, 1} bytes, missing, removed between head and body; 7 connection-level cases over "
                "loopback (failed write, then the 500 handle_http_conn would send)")


@prop("C20")
def c20(ctx):
    ctx.mc("MC_Conn", workers=8)
    tr = ctx.drive("status-all")
    ctx.validate("Trace_Response", tr, "status-all")
    import json as _j
    unc = [_j.loads(l) for l in open(tr) if '"CtorList"' in l]
    if unc and unc[0].get("uncovered"):
        ctx.notes.append("status-named constructors in response.rs not known to the harness (uncovered, not a "
                         "violation): " + ", ".join(unc[0]["uncovered"]))
    ctx.exhaustive = True
    ctx.rule = ("all 15 status-named constructors, all 28 HttpError variants (I/O payloads carrying a path and CR/LF), "
                "each mapped response serialised and its status line read back; every status 100..999 through a "
                "loopback HttpConn (close header and write-side shutdown iff 5xx)")


# ---------------------------------------------------------------------------------- C04 C09 C10
reg("exchange-gen", "Trace_Exchange")
reg("limits", "Trace_Exchange")


def _c10_reason(why):
    t = str(why)
    return "temp files left" in t or "did not end" in t or "SpecProperty" in t


@prop("C04")
def c04(ctx):
    ctx.mc("MC_Exchange", "MC_Exchange" if ctx.quick else "MC_Exchange2", workers=12, timeout=3000)
    tr = ctx.drive("exchange-gen", n=1500 if ctx.quick else 30000, timeout=3000)
    ctx.validate("Trace_Exchange", tr, "exchange-gen", shards=8 if ctx.quick else 12, timeout=3000)
    ctx.rule = ("random histories of 1..12 requests per connection drawn from {no body, small body, body above the "
                "in-memory threshold, unknown-length body, Expect, malformed} x handler answers {normal 2xx-5xx, "
                "fetch-body(M), drop, panic} x client schedules {single write, random fragments with pauses, "
                "byte-at-a-time, ping-pong} against a real HttpServerBuilder::spawn server; events come from servlin's "
                "hook log (ReqRead, handler call, response written, bytes copied, connection end) in hook order")
    ctx.assumptions += ["when the server closes a connection while client bytes are still unread, TCP may reset it and "
                        "the client may lose response bytes: the transcript then only has to be a prefix of the "
                        "responses the hook log shows were written"]


@prop("C09")
def c09(ctx):
    ctx.mc("MC_Exchange", workers=12)
    tr = ctx.drive("limits", thorough=0 if ctx.quick else 1, timeout=3000)
    ctx.validate("Trace_Exchange", tr, "limits", shards=8, keep=lambda w: not _c10_reason(w) or "SpecProperty" in str(w))
    ctx.exhaustive = True
    ctx.rule = ("cross product S in {0,1,100,65536} x M in {0,1,S-1,S,S+1,70000,2^63,2^64-1} x L in {0,1,S-1,S,S+1,M-1,"
                "M,M+1,M+2} x declared/undeclared x Expect x cache dir on/off (lengths above 70002 are only declared, "
                "never sent), plus client disconnects at offset classes; limits are decimal digit tuples in the spec")


@prop("C10")
def c10(ctx):
    ctx.mc("MC_Exchange", workers=12)
    tr = ctx.drive("limits", thorough=0 if ctx.quick else 1, timeout=3000)
    ctx.validate("Trace_Exchange", tr, "limits", shards=8, keep=_c10_reason)
    ctx.level = "fault_enumeration"
    ctx.exhaustive = True
    ctx.rule = ("uploads of known and unknown length cut by client disconnect at offset classes {0, 1, mid, 8192, "
                "len-1} x over-limit x handler outcome after receipt {normal, 5xx, drop, panic, fetch-again} x cache "
                "dir removed x 1..4 concurrent uploads; the cache directory is listed after the hook log shows the "
                "connection task ended; MC_Exchange checks NoLeak at every step of the multi-step upload incl. "
                "disk-write failure")
    ctx.assumptions += ["disk-write failure is explored in the model only (RLIMIT_FSIZE injection is not built)"]


# ---------------------------------------------------------------------------------- C12 C13
reg("tokens-enum", "Trace_Tokens")
reg("server-stress", "Trace_Server")

C13_WORDS = ("stop signal", "StopTimeout", "after revocation", "after the stop signal", "in-flight", "StopOrder",
             "accept loop returned", "AccRevoked", "listener")


def _c13_reason(why):
    t = str(why)
    return any(w in t for w in C13_WORDS)


@prop("C12")
def c12(ctx):
    ctx.mc("Server", "MC_Server" if ctx.quick else "MC_Server3", workers=12, timeout=3000)
    tk = ctx.drive("tokens-enum", depth=6 if ctx.quick else 8, timeout=3000)
    ctx.validate("Trace_Tokens", tk, "tokens-enum", shards=8, timeout=3000)
    tr = ctx.drive("server-stress", runs=300 if ctx.quick else 3000, timeout=3000)
    ctx.validate("Trace_Server", tr, "server-stress", shards=4 if ctx.quick else 12, keep=lambda w: not _c13_reason(w))
    ctx.rule = ("real server runs with max_conns in 1..4 and 2..3x as many clients, random schedules of connect / send "
                "{ok, 404, 503, panic, drop, 300 kB response, malformed, partial head, partial upload} / gate open / "
                "abrupt close, half of the runs followed by the refill check (max gated connections must all enter "
                "their handlers); every hook event (token take/return, accept-loop phases, connection begin/end) is one "
                "action, Limit and Conservation are evaluated after every event; TokenSet API sequences exhaustively "
                "to depth 6 (quick) / 8 (thorough) for sizes 1..3")
    ctx.assumptions += ["accept failure under a descriptor limit (EMFILE) is covered by the model (AccFail) only"]


@prop("C13")
def c13(ctx):
    ctx.mc("Server", "MC_Server" if ctx.quick else "MC_Server3", workers=12, timeout=3000)
    ctx.mc("Server", "MC_Server_pinned", workers=4, expect_error="Temporal property Prompt was violated",
           label="counterexample on the pre-repair design (token wait not raced against the permit)")
    tr = ctx.drive("server-stress", runs=300 if ctx.quick else 3000, timeout=3000)
    ctx.validate("Trace_Server", tr, "server-stress", shards=4 if ctx.quick else 12, keep=_c13_reason)
    ctx.rule = ("the same real server runs as C12, each ending with revocation at whatever phase the random history "
                "has reached (idle keep-alive, partial head, handler running, upload in progress, response being "
                "written to a client that is not reading, all slots occupied); observed: stop signal within 5 s and "
                "only after the listener was released (hook order), late connect refused, at most one further request "
                "per connection after revocation, handlers that were running at revocation answer; the liveness "
                "property revoked ~> stopped is model-checked under weak fairness of the server's actions only")
