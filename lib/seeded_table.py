#!/usr/bin/env python3
"""Prints the markdown table of seeded changes (DESIGN.md section 11.5) from seeded/*/meta.json."""
import glob
import json
import os
import re

VERIF = os.path.dirname(os.path.dirname(os.path.abspath(__file__)))
print("| seeded change | site | needs, to manifest | caught by (quick tier) |")
print("|---|---|---|---|")
for d in sorted(glob.glob(os.path.join(VERIF, "seeded", "*", ""))):
    m = json.load(open(d + "meta.json"))
    files = sorted(set(re.findall(r"^\+\+\+ b/(\S+)", open(d + "patch.diff").read(), re.M)))
    needs = m.get("needs", "")
    if m.get("history"):
        needs += " -- " + m["history"]
    print(f"| {m['name']} | {', '.join('`%s`' % f for f in files)} | {needs} | {', '.join(m['caught_by']) or ('unreliably: ' + ', '.join(m['caught_unreliably_by']) if m.get('caught_unreliably_by') else '**NOT CAUGHT**')} |")
