SPECIFICATION Spec
CONSTANTS Max = 3
 Clients = {c1, c2, c3, c4, c5, c6}
 RaceTokenWait = TRUE
INVARIANTS Limit Conservation StopOrder AtMostOneMore
PROPERTY Prompt
CHECK_DEADLOCK FALSE
