---- MODULE Trace_Calendar ----
(* impl -> spec for C16: the code's renderings and additions against Calendar.             *)
(*  Month   : n consecutive days starting at day number `first` were rendered y-m-01..y-m-n *)
(*            (the runs must tile the day line without gap or overlap)                      *)
(*  Day     : a day that did not continue a run (never right)                               *)
(*  WholeDay: every second of one day                                                       *)
(*  Text    : rendered text of an instant through one of the three users                    *)
(*  Add     : start + duration                                                              *)
EXTENDS Calendar, Json, IOUtils, TLCExt, SequencesExt
Rec == ndJsonDeserialize(IOEnv.TRACE)
VARIABLES l, bad, nvalid, next
E == Rec[l]
Why(e) ==
  CASE e.ev = "Month" -> IF e.first # next THEN <<"Tiling: gap or overlap before day", e.first, next>>
                         ELSE IF ~(e.m \in 1..12 /\ e.n = MonthLen(e.y, e.m)) THEN <<"MonthLen", e.y, e.m, e.n>>
                         ELSE IF DaysFromCivil(e.y, e.m, 1) # e.first THEN <<"FirstDay", e.y, e.m, e.first>>
                         ELSE IF ~\A i \in 1..Len(e.times) : TimeOk(e.times[i]) THEN <<"TimeOfDay", e.y, e.m>>
                         ELSE <<>>
    [] e.ev = "Day" -> <<"Day outside a well-formed month run", e.d>>
    [] e.ev = "SweepEnd" -> IF next = e.days THEN <<>> ELSE <<"Sweep covered", next, "of", e.days>>
    [] e.ev = "WholeDay" -> IF e.badSeconds = 0 /\ CivilFromDays(e.d) = <<e.y, e.m, e.day>> THEN <<>> ELSE <<"WholeDay", e.d, e.badSeconds>>
    [] e.ev = "Text" -> IF e.text = Text(e.d, e.sod) THEN <<>> ELSE <<"Text", e.user, e.d, e.sod, e.text>>
    [] e.ev = "FileName" -> IF FileNameOk(e) THEN <<>> ELSE <<"FileName", e.text, e.bd, e.bs>>
    [] e.ev = "Add" -> IF ~e.panic /\ e.out = AddOut(e.start, e.dd, e.ds) THEN <<>> ELSE <<"Add", e.start, e.dd, e.ds, "got", e.out, "expected", AddOut(e.start, e.dd, e.ds)>>
    [] OTHER -> <<>>
TInit == l = 1 /\ bad = {} /\ nvalid = 0 /\ next = 0
TNext == /\ l <= Len(Rec) /\ l' = l + 1
         /\ IF E.ev = "Reset" THEN next' = E.next /\ UNCHANGED <<bad, nvalid>>
            ELSE LET w == Why(E) IN
                 /\ next' = (IF E.ev = "Month" THEN E.first + E.n ELSE next)
                 /\ IF w = <<>> THEN nvalid' = nvalid + 1 /\ bad' = bad
                    ELSE bad' = bad \cup {<<E.sid, l, w>>} /\ nvalid' = nvalid
TSpec == TInit /\ [][TNext]_<<l, bad, nvalid, next>>
Report == IF l = Len(Rec) + 1
          THEN JsonSerialize(IOEnv.REPORT, [nvalid |-> nvalid, bad |-> SetToSeq(bad), events |-> Len(Rec)])
          ELSE TRUE
====
