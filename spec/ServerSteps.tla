---- MODULE ServerSteps ----
(***************************************************************************)
(* C12 / C13 at the granularity of servlin's hooks: the accept loop, the   *)
(* token set, the permit and the connection tasks as ONE step function     *)
(* Apply(t, e) on a state record -- one case per hook event (emitted       *)
(* inside servlin at the linearisation point) and per harness step.        *)
(* MC_ServerSteps runs this function as a machine and model-checks Limit,  *)
(* Conservation, StopOrder, AtMostOneMore and the liveness of the stop     *)
(* signal; Trace_Server replays the hook log of real server runs through   *)
(* the SAME function.  (Server.tla is the coarser design model in which    *)
(* the pre-repair counterexample of D8 is kept.)                           *)
(*                                                                         *)
(* A case answers No(why) either because the design cannot take that step  *)
(* in that state (so a log containing it is not a behaviour of servlin) or *)
(* because the event itself records a violation (StopTimeout, a late       *)
(* connection served).                                                     *)
(*                                                                         *)
(* mustEnd: connections whose last look at the permit (at the top of       *)
(* handle_http_conn's loop: after ConnBegin and after every response)      *)
(* necessarily came after the revocation completed; they read no further   *)
(* request.                                                                *)
(***************************************************************************)
EXTENDS Naturals, FiniteSets, Sequences, TLC
CONSTANT RaceTokenWait     \* TRUE: the wait for a token is raced against the permit (the code since the repair of D8)
CONSTANT SubPermitRace     \* TRUE: a connection accepted WHILE the permit is being revoked may get a permit the revocation
                           \* never reaches (permit 0.2.1 new_sub; the code before the repair of D14).  FALSE: the accept loop
                           \* looks at its own permit again after creating the connection's and drops the connection.

\* revoked: 0 = no, 1 = the harness is about to drop the permit, 2 = the drop has returned
Init0(max) == [max |-> max, avail |-> max, accPc |-> "Top", accHolds |-> FALSE, pendingRet |-> 0, backlog |-> 0,
               accepted |-> {}, live |-> {}, revoked |-> 0, loopReturned |-> FALSE, stoppedSent |-> FALSE,
               stoppedSeen |-> FALSE, afterRevoke |-> <<>>, inflight |-> {}, written |-> <<>>, ended |-> {},
               maxSeen |-> 0, mustEnd |-> {}, unanswered |-> {}, tookWhileRevoked |-> FALSE, immune |-> {}]
Get(f, k) == IF k \in DOMAIN f THEN f[k] ELSE 0
Inc(f, k) == IF k \in DOMAIN f THEN [f EXCEPT ![k] = @ + 1] ELSE f @@ (k :> 1)
Ok(t) == [ok |-> TRUE, sv |-> t, why |-> <<>>]
No(why) == [ok |-> FALSE, sv |-> <<>>, why |-> why]

\* one event applied to the state: [ok, sv, why]
Apply(t, e) ==
  CASE e.ev = "ClientConnect" -> Ok([t EXCEPT !.backlog = @ + 1])
    [] e.ev = "ClientConnectFailed" -> IF t.backlog > 0 THEN Ok([t EXCEPT !.backlog = @ - 1]) ELSE No(<<"connect failed without a connect">>)
    [] e.ev \in {"ClientConnected", "ClientSend", "GateOpen", "ClientClose", "LateConnect", "HEnter", "RespWritten", "RespFailed", "BodyCopied", "ClientGot"} ->
         IF e.ev = "HEnter" /\ t.revoked < 1 /\ e.b % 10 # 1 THEN Ok([t EXCEPT !.inflight = @ \cup {<<e.a, e.b>>}])   \* a handler running when the permit is revoked
         \* a response went out: the request is answered; the loop looks at the permit next; after a 5xx the connection closes (C04)
         ELSE IF e.ev = "RespWritten" THEN Ok([t EXCEPT !.written = Inc(@, e.a), !.inflight = {p \in @ : p[1] # e.a},
                                                        !.unanswered = @ \ {e.a},
                                                        !.mustEnd = IF (t.revoked = 2 /\ e.a \notin t.immune) \/ e.b >= 500 THEN @ \cup {e.a} ELSE @])
         \* a failed write: the connection is beyond repair
         ELSE IF e.ev = "RespFailed" THEN Ok([t EXCEPT !.mustEnd = @ \cup {e.a}])
         ELSE Ok(t)
    [] e.ev = "Quiesce" ->
         \* nothing leaks once everything has wound down, and every handler that was running at revocation answered
         IF t.live # {} \/ t.accepted # {} \/ t.pendingRet # 0 THEN No(<<"slots not conserved at quiescence", t.live, t.accepted, t.pendingRet>>)
         ELSE IF t.avail + (IF t.accHolds THEN 1 ELSE 0) # t.max THEN No(<<"slots lost", t.avail, t.max>>)
         ELSE IF {p \in t.inflight : p[1] \notin {e.aborted[i] : i \in 1..Len(e.aborted)}} # {} THEN No(<<"in-flight request got no response", t.inflight>>)
         ELSE Ok(t)
    \* e.a = handlers entered since the refill began (the harness first waits until every connection that was ever
    \* established has ended, so that a connection accepted late from the listen backlog cannot blur the count)
    [] e.ev = "RefillOk" -> IF e.a = t.max THEN Ok(t) ELSE No(<<"after the history only", e.a, "of", t.max, "connections could be serviced at once">>)
    [] e.ev = "RevokeBegin" -> Ok([t EXCEPT !.revoked = 1])
    [] e.ev = "RevokeDone" -> Ok([t EXCEPT !.revoked = 2])
    [] e.ev = "StoppedReceived" -> IF t.stoppedSent THEN Ok([t EXCEPT !.stoppedSeen = TRUE]) ELSE No(<<"stop signal received but never sent">>)
    [] e.ev = "StopTimeout" -> No(<<"no stop signal within the deadline after revocation; accept loop at", t.accPc>>)
    [] e.ev \in {"LateConnectRefused", "SignalConnectRefused"} -> Ok(t)
    \* probed from inside the delivery of the stop signal (the receiver's waker): the listening socket must be gone by then
    [] e.ev = "SignalConnectAccepted" -> No(<<"the listening socket was still open at the instant the stop signal was delivered">>)
    \* a connection was handed a permit that the (completed) revocation did not reach: it would serve requests for ever
    [] e.ev = "PermitMissedRevocation" -> No(<<"a connection accepted during revocation holds a permit that was never revoked; it is not closed after revocation">>)
    [] e.ev = "LateConnectAccepted" -> No(<<"connection attempt served after the stop signal">>)
    \* the server's end of a connection that has ended (ConnEnd) is still open: it holds more sockets than it has slots
    [] e.ev = "EndedSocketStillOpen" -> No(<<"a connection that has ended still holds its socket: more open sockets than slots", e.b>>)
    [] e.ev = "EndedSocketClosed" -> Ok(t)
    \* the task that runs the accept loop panicked: whatever it still owed (listener release, stop signal) is never delivered
    [] e.ev = "AcceptTaskPanicked" -> No(<<"the accept task panicked inside servlin; the stop signal it owes is never sent">>)
    \* ---- accept loop ----
    [] e.ev = "AccWait" -> IF t.accPc = "Top" /\ ~t.accHolds THEN Ok([t EXCEPT !.accPc = "Waiting"]) ELSE No(<<"AccWait at", t.accPc>>)
    [] e.ev = "TokenTake" -> IF t.accPc = "Waiting" /\ t.avail > 0
                             THEN Ok([t EXCEPT !.avail = @ - 1, !.accHolds = TRUE, !.accPc = "Check", !.tookWhileRevoked = (t.revoked = 2)])
                             ELSE No(<<"TokenTake with avail", t.avail, "at", t.accPc>>)
    [] e.ev = "AccRevokedInWait" -> IF RaceTokenWait /\ t.accPc = "Waiting" /\ t.revoked >= 1 THEN Ok([t EXCEPT !.accPc = "Done"]) ELSE No(<<"AccRevokedInWait", t.accPc, t.revoked>>)
    [] e.ev = "AccRevokedExit" -> IF t.accPc = "Check" /\ t.revoked >= 1 THEN Ok([t EXCEPT !.accPc = "Done", !.accHolds = FALSE, !.pendingRet = @ + 1])
                                  ELSE No(<<"AccRevokedExit", t.accPc, t.revoked>>)
    \* the loop looks at the permit after it got the token: it cannot go on to accept when the revocation had
    \* completed before the token was taken
    [] e.ev = "AccAccepting" -> IF t.accPc = "Check" /\ t.accHolds /\ ~t.tookWhileRevoked THEN Ok([t EXCEPT !.accPc = "Accepting"])
                                ELSE No(<<"AccAccepting", t.accPc, "token taken after revocation", t.tookWhileRevoked>>)
    [] e.ev = "AccAccepted" -> IF t.accPc = "Accepting" /\ t.accHolds /\ t.backlog > 0 /\ ~t.loopReturned
                               THEN Ok([t EXCEPT !.backlog = @ - 1, !.accepted = @ \cup {e.a}, !.accHolds = FALSE, !.accPc = "IterEnd",
                                                 !.immune = IF SubPermitRace /\ t.revoked = 1 THEN @ \cup {e.a} ELSE @])
                               ELSE No(<<"AccAccepted", t.accPc, t.accHolds, t.backlog, t.loopReturned>>)
    \* the loop created the connection's permit, then saw that its own permit had been revoked meanwhile: the
    \* connection is dropped unserved, its token goes back, the loop returns
    [] e.ev = "AccRevokedAfterAccept" -> IF t.accPc = "IterEnd" /\ e.a \in t.accepted /\ t.revoked >= 1
                                         THEN Ok([t EXCEPT !.accepted = @ \ {e.a}, !.pendingRet = @ + 1, !.accPc = "Done"])
                                         ELSE No(<<"AccRevokedAfterAccept", t.accPc, t.revoked>>)
    [] e.ev = "AccAcceptErr" -> IF t.accPc = "Accepting" /\ t.accHolds THEN Ok([t EXCEPT !.accHolds = FALSE, !.pendingRet = @ + 1, !.accPc = "IterEnd"])
                                ELSE No(<<"AccAcceptErr", t.accPc>>)
    [] e.ev = "AccIterEnd" -> IF t.accPc = "IterEnd" THEN Ok([t EXCEPT !.accPc = "Top"])
                              ELSE IF t.accPc = "Accepting" /\ t.revoked >= 1 /\ t.accHolds                    \* the permit woke the loop
                              THEN Ok([t EXCEPT !.accHolds = FALSE, !.pendingRet = @ + 1, !.accPc = "Top"])
                              ELSE No(<<"AccIterEnd", t.accPc, t.revoked>>)
    [] e.ev = "AcceptLoopReturned" -> IF t.accPc = "Done" /\ t.revoked >= 1 THEN Ok([t EXCEPT !.loopReturned = TRUE]) ELSE No(<<"accept loop returned at", t.accPc, t.revoked>>)
    [] e.ev = "StoppedSending" -> IF t.loopReturned THEN Ok([t EXCEPT !.stoppedSent = TRUE]) ELSE No(<<"stop signal before the listener was released">>)
    \* ---- tokens and connection tasks ----
    [] e.ev = "TokenReturn" -> IF t.pendingRet > 0 THEN Ok([t EXCEPT !.pendingRet = @ - 1, !.avail = @ + 1]) ELSE No(<<"a token was returned that nobody held">>)
    [] e.ev = "ConnBegin" -> IF e.a \in t.accepted THEN Ok([t EXCEPT !.accepted = @ \ {e.a}, !.live = @ \cup {e.a},
                                                                  !.mustEnd = IF t.revoked = 2 /\ e.a \notin t.immune THEN @ \cup {e.a} ELSE @]) ELSE No(<<"ConnBegin of a connection that was not accepted", e.a>>)
    [] e.ev = "ReqRead" -> IF e.a \notin t.live THEN No(<<"request read on a connection that is not live", e.a>>)
                           ELSE IF e.a \in t.ended THEN No(<<"request read after the connection ended", e.a>>)
                           ELSE IF e.a \in t.mustEnd THEN No(<<"request read on a connection that had to close (permit revoked at its last check, 5xx sent, or a failed write)", e.a>>)
                           ELSE IF e.a \in t.unanswered THEN No(<<"a second request read before the first was answered", e.a>>)
                           ELSE Ok([t EXCEPT !.unanswered = @ \cup {e.a}, !.afterRevoke = IF t.revoked = 2 THEN Inc(@, e.a) ELSE @])
    [] e.ev = "ConnEnd" -> IF e.a \in t.live THEN Ok([t EXCEPT !.live = @ \ {e.a}, !.pendingRet = @ + 1, !.ended = @ \cup {e.a}]) ELSE No(<<"ConnEnd of a connection that is not live", e.a>>)
    [] OTHER -> Ok(t)

\* C12
Limit(t) == Cardinality(t.live \cup t.accepted) <= t.max
Conservation(t) == t.avail + Cardinality(t.live) + Cardinality(t.accepted) + t.pendingRet + (IF t.accHolds THEN 1 ELSE 0) = t.max
\* C13
AtMostOneMore(t) == \A a \in DOMAIN t.afterRevoke : t.afterRevoke[a] <= 1      \* every open connection serves at most one further request
StopOrder(t) == (t.stoppedSent => t.loopReturned) /\ (t.loopReturned => t.revoked >= 1)

====
