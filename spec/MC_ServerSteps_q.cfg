SPECIFICATION Spec
CONSTANTS
  RaceTokenWait = TRUE
  Max = 2
  MaxConnects = 3
  MaxReqs = 2
  MaxAcceptErrs = 1
INVARIANTS LimitInv ConservationInv StopOrderInv AtMostOneMoreInv Refill
PROPERTY Prompt
CHECK_DEADLOCK FALSE
