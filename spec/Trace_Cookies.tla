---- MODULE Trace_Cookies ----
(* impl -> spec for C15 (response side): a client-side RFC 6265 5.2 parser reads every built cookie back. *)
EXTENDS Cookies, Json, IOUtils, TLCExt, SequencesExt
Rec == ndJsonDeserialize(IOEnv.TRACE)
VARIABLES l, bad, nvalid
E == Rec[l]
Why(e) == LET p == Parse(e.field) IN
  IF e.count # 1 THEN <<"SetCookieFieldCount", e.count>>
  ELSE IF ~p.ok THEN <<"Unparseable">>
  ELSE IF p.name # e.name \/ p.value # e.value THEN <<"NameValue", p.name, p.value>>
  ELSE IF p.domain # LowerSeq(e.domain) THEN <<"Domain", p.domain>>
  ELSE IF p.path # e.path THEN <<"Path", p.path>>
  ELSE IF p.maxAge # (IF e.maxAge = <<48>> THEN <<>> ELSE e.maxAge) THEN <<"MaxAge", p.maxAge>>   \* zero means "unset" in this API
  ELSE IF p.secure # e.secure \/ p.httpOnly # e.httpOnly THEN <<"Flags", p.secure, p.httpOnly>>
  ELSE IF p.sameSite # e.sameSite THEN <<"SameSite", p.sameSite>>
  ELSE <<>>
TInit == l = 1 /\ bad = {} /\ nvalid = 0
TNext == /\ l <= Len(Rec) /\ l' = l + 1
         /\ IF E.ev # "SetCookie" THEN UNCHANGED <<bad, nvalid>>
            ELSE LET w == Why(E) IN
                 IF w = <<>> THEN nvalid' = nvalid + 1 /\ bad' = bad
                 ELSE bad' = bad \cup {<<E.sid, l, w>>} /\ nvalid' = nvalid
TSpec == TInit /\ [][TNext]_<<l, bad, nvalid>>
Report == IF l = Len(Rec) + 1
          THEN JsonSerialize(IOEnv.REPORT, [nvalid |-> nvalid, bad |-> SetToSeq(bad), events |-> Len(Rec)])
          ELSE TRUE
====
