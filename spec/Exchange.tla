---- MODULE Exchange ----
(***************************************************************************)
(* C04 / C09 / C10: handle_http_conn and handle_http_conn_once for one       *)
(* connection, one action per await-delimited step of the code:              *)
(*   LoopTop -> Read -> (AutoCont -> AutoRead) | (Ask -> Ans1 ->              *)
(*     (Temp -> Cont2 -> Copy -> [TooLong] -> Handover)) -> Call -> Ans2      *)
(*     -> LoopTop | Closing -> Closed                                         *)
(* The handler and the client are the environment.  Their choices (answers,  *)
(* how much of a body really arrives, whether the cache directory is gone,    *)
(* whether the disk write fails) are data of the scenario, so the machine is  *)
(* a deterministic step function Step(s): MC_Exchange explores it from every  *)
(* scenario of a bounded family and checks the properties in every            *)
(* intermediate state (every crash point of the multi-step upload);           *)
(* Trace_Exchange drives the same Step with the scenario a driver recorded    *)
(* and compares the emitted observables with the hook log of the real code.   *)
(* Lengths and limits are decimal digit tuples (no 2^64 overflow to share     *)
(* with the code).                                                           *)
(***************************************************************************)
EXTENDS Bytes, TLC

Zero == <<48>>
\* successor on ASCII digit tuples
RECURSIVE DecSucc(_)
DecSucc(a) == IF a = <<>> THEN <<49>>
              ELSE IF a[Len(a)] < 57 THEN [a EXCEPT ![Len(a)] = @ + 1]
              ELSE Append(DecSucc(SubSeq(a, 1, Len(a) - 1)), 48)

(* ---- observables ---- *)
NoObs == [o |-> "none"]
ObsReq(i) == [o |-> "ReqRead", i |-> i]
ObsCall(i, n, body, len, dig) == [o |-> "Call", i |-> i, n |-> n, body |-> body, len |-> len, digest |-> dig]
ObsResp(i, code, tag) == [o |-> "Resp", i |-> i, code |-> code, tag |-> tag]     \* tag: "app" (the handler's own) or "lib"
ObsCopied(n) == [o |-> "Copied", n |-> n]
ObsEnd == [o |-> "ConnEnd"]

(* ---- a scenario ----                                                       *)
(* cfg  = [S |-> digits, cache |-> BOOLEAN]                                   *)
(* reqs = sequence of                                                          *)
(*   [kind |-> "none" | "known" | "unknown" | "malformed",                    *)
(*    L |-> declared length (digits), sent |-> body bytes really sent (digits),*)
(*    digest |-> of the bytes sent, full |-> all declared bytes were sent,     *)
(*    expect |-> BOOLEAN, answers |-> <<a1, a2>>,                              *)
(*    dirGone |-> cache dir removed before the upload, diskFail |-> BOOLEAN,  *)
(*    rst |-> the client aborted (RST instead of FIN) while the body was read, *)
(*    contFail |-> the write of the interim 100 Continue fails]               *)
(* answer = [k |-> "Normal" | "Fetch" | "Drop" | "Panic", code, max (digits)]  *)

InitState(cfg, reqs) ==
  [pc |-> "LoopTop", cfg |-> cfg, reqs |-> reqs, i |-> 1, n |-> 0, files |-> 0, unread |-> FALSE, eof |-> FALSE,
   emit |-> NoObs, calls |-> [k \in 1..Len(reqs) |-> 0], finals |-> [k \in 1..Len(reqs) |-> 0],
   mem |-> Zero, disk |-> Zero, drained |-> TRUE]

Q(s) == s.reqs[s.i]
EffLen(q) == IF q.kind = "known" THEN q.L ELSE q.sent          \* for an undeclared body the end of the stream is its end
To(s, pc, emit) == [s EXCEPT !.pc = pc, !.emit = emit]
Close(s, emit) == [s EXCEPT !.pc = "Closing", !.emit = emit, !.files = 0]
\* the connection is closed while bytes of the current request's body may still be unread (the
\* kernel may then reset the connection and the client may lose response bytes it had not read yet)
CloseDirty(s, emit) == [s EXCEPT !.pc = "Closing", !.emit = emit, !.files = 0, !.drained = FALSE]
CountCall(s) == [s EXCEPT !.calls[s.i] = @ + 1]
CountFinal(s) == [s EXCEPT !.finals[s.i] = @ + 1]

\* what a final answer of the handler turns into
Answer(s, a, n) ==
  CASE a.k = "Normal" ->
         \* an answer in the 1xx range is written like any other but leaves the request without its final response: the
         \* connection is not used again (and nothing further is written on it)
         LET open == a.code >= 200 /\ a.code < 400 /\ ~s.unread /\ ~s.eof
             s1 == CountFinal([s EXCEPT !.files = 0, !.emit = ObsResp(s.i, a.code, "app")])
         IN IF open THEN [s1 EXCEPT !.pc = "LoopTop", !.i = s.i + 1] ELSE [s1 EXCEPT !.pc = "Closing"]
    [] a.k = "Panic" -> CountFinal(Close(s, ObsResp(s.i, 500, "lib")))        \* a panicking handler yields a 500
    [] a.k = "Drop" -> Close(s, NoObs)                                        \* no bytes
    [] a.k = "Fetch" -> CountFinal(Close(s, ObsResp(s.i, 500, "lib")))        \* AlreadyGotBody

Step(s) ==
  CASE s.pc = "LoopTop" ->
         IF s.i > Len(s.reqs) \/ s.unread \/ s.eof THEN To(s, "Closing", NoObs)   \* peer finished, or the connection cannot be reused
         ELSE To(s, "Read", NoObs)
    [] s.pc = "Read" ->
         LET q == Q(s) IN
         IF q.kind = "malformed" THEN CountFinal(Close(s, ObsResp(s.i, 400, "lib")))
         ELSE To(s, "Route", ObsReq(s.i))
    [] s.pc = "Route" ->
         LET q == Q(s) IN
         IF q.kind = "none" \/ (q.kind = "known" /\ DecEq(q.L, Zero)) THEN To([s EXCEPT !.n = 1], "Call", NoObs)
         ELSE IF q.kind = "known" /\ DecLeq(q.L, s.cfg.S) THEN To(s, "AutoCont", NoObs)
         ELSE To(s, "Ask", NoObs)
    \* ---- small declared body: read into memory without asking ----
    \* (contFail: the connection is already broken when the interim 100 Continue is written; the write fails and the
    \* connection task ends -- whatever had been prepared for the upload is gone with it)
    [] s.pc = "AutoCont" -> IF Q(s).expect /\ Q(s).contFail THEN CloseDirty(s, ObsResp(s.i, 100, "lib"))
                            ELSE To(s, "AutoRead", IF Q(s).expect THEN ObsResp(s.i, 100, "lib") ELSE NoObs)
    [] s.pc = "AutoRead" ->
         IF Q(s).full THEN To([s EXCEPT !.n = 1, !.mem = Q(s).L], "Call", NoObs)
         ELSE CountFinal(Close(s, ObsResp(s.i, 400, "lib")))                    \* Truncated
    \* ---- large or undeclared body: the handler is asked first ----
    [] s.pc = "Ask" ->
         LET q == Q(s) IN
         To(CountCall([s EXCEPT !.n = 1]), "Ans1", ObsCall(s.i, 1, "Pending", IF q.kind = "known" THEN q.L ELSE Zero, 0))
    [] s.pc = "Ans1" ->
         LET q == Q(s) a == q.answers[1] IN
         IF a.k # "Fetch" THEN Answer([s EXCEPT !.unread = TRUE, !.drained = FALSE], a, 1)       \* answered directly: the body stays unread
         ELSE IF ~s.cfg.cache THEN CountFinal(CloseDirty(s, ObsResp(s.i, 500, "lib")))   \* CacheDirNotConfigured
         ELSE IF q.kind = "known" /\ DecLt(a.max, q.L) THEN CountFinal(CloseDirty(s, ObsResp(s.i, 413, "lib")))   \* refused before anything is read
         ELSE To(s, "Temp", NoObs)
    [] s.pc = "Temp" ->
         IF Q(s).dirGone THEN CountFinal(CloseDirty(s, ObsResp(s.i, 500, "lib")))   \* ErrorSavingFile: no file was created
         ELSE To([s EXCEPT !.files = 1], "Cont2", NoObs)
    [] s.pc = "Cont2" -> IF Q(s).expect /\ Q(s).contFail THEN CloseDirty(s, ObsResp(s.i, 100, "lib"))
                         ELSE To(s, "Copy", IF Q(s).expect THEN ObsResp(s.i, 100, "lib") ELSE NoObs)
    [] s.pc = "Copy" ->
         LET q == Q(s) a == q.answers[1] IN
         IF q.diskFail THEN CountFinal(CloseDirty(s, ObsResp(s.i, 500, "lib")))     \* ErrorSavingFile: the temp file is removed
         ELSE IF q.kind = "unknown" /\ q.rst THEN CountFinal(Close(s, ObsResp(s.i, 400, "lib")))   \* the client reset the connection: Truncated
         ELSE IF q.kind = "known"
              THEN IF q.full THEN To([s EXCEPT !.disk = q.L], "Handover", NoObs)
                   ELSE CountFinal(Close(s, ObsResp(s.i, 400, "lib")))          \* Truncated
         ELSE IF DecLt(a.max, q.sent)
              THEN To([s EXCEPT !.disk = DecSucc(a.max), !.eof = TRUE], "TooLong", ObsCopied(DecSucc(a.max)))   \* at most M+1 bytes reach the disk
              ELSE To([s EXCEPT !.disk = q.sent, !.eof = TRUE], "Handover", ObsCopied(q.sent))
    [] s.pc = "TooLong" -> CountFinal(CloseDirty(s, ObsResp(s.i, 413, "lib")))
    [] s.pc = "Handover" ->
         LET q == Q(s) IN To(CountCall([s EXCEPT !.n = 2]), "Ans2", ObsCall(s.i, 2, "File", EffLen(q), q.digest))
    \* ---- the handler has the complete body (or there is none) ----
    [] s.pc = "Call" ->
         LET q == Q(s) IN
         To(CountCall(s), "Ans2", ObsCall(s.i, 1, "Mem", IF q.kind = "none" THEN Zero ELSE q.L, IF q.kind = "none" THEN 0 ELSE q.digest))
    [] s.pc = "Ans2" -> Answer(s, Q(s).answers[s.n], s.n)
    [] s.pc = "Closing" -> To([s EXCEPT !.files = 0], "Closed", ObsEnd)
    [] OTHER -> [s EXCEPT !.emit = NoObs]

Done(s) == s.pc = "Closed"

(* ---------------- properties (checked in every intermediate state) ---------------- *)
\* C10: no temp file while no request is in progress
NoLeak(s) == s.pc \in {"LoopTop", "Closing", "Closed"} => s.files = 0
\* C04: the handler runs once per request, twice only when its first answer was fetch-body on a pending body
CallCount(s) == \A k \in 1..Len(s.reqs) :
                  /\ s.calls[k] <= 2
                  /\ (s.calls[k] = 2 => (s.reqs[k].kind \in {"known", "unknown"} /\ s.reqs[k].answers[1].k = "Fetch"))
                  /\ s.finals[k] <= 1                                      \* at most one final response per request
\* C04: requests are served in order; a later request is touched only after the earlier ones got their final response
Order(s) == \A k \in 1..Len(s.reqs) : (k < s.i /\ k <= Len(s.reqs)) => (s.calls[k] >= 1 /\ s.finals[k] = 1 /\ s.reqs[k].kind # "malformed")
\* C04: once the connection cannot be reused nothing more is read from it
ClosedIsFinal(s) == (s.unread \/ s.eof) => s.pc \notin {"Read", "Route"}
\* C09: never more than S body bytes in memory, never more than M+1 on disk
MemBound(s) == DecLeq(s.mem, s.cfg.S)
DiskBound(s) == s.pc \in {"TooLong", "Handover", "Ans2"} /\ Q(s).kind = "unknown" /\ Q(s).answers[1].k = "Fetch"
                => DecLeq(s.disk, DecSucc(Q(s).answers[1].max))
\* C09: a body reaches the handler complete and byte-exact, and only within the limit
Intact(s) == (s.emit.o = "Call" /\ s.emit.body = "File") =>
               /\ DecLeq(s.emit.len, Q(s).answers[1].max)
               /\ s.emit.len = EffLen(Q(s)) /\ s.emit.digest = Q(s).digest
\* the emitted observables of a whole run (used by the trace specification)
RECURSIVE RunFrom(_, _)
RunFrom(s, fuel) == IF Done(s) \/ fuel = 0 THEN <<>>
                    ELSE LET t == Step(s) IN (IF t.emit.o = "none" THEN <<>> ELSE <<t.emit>>) \o RunFrom(t, fuel - 1)

(***************************************************************************)
(* Request::recv_body(M): the documented helper with which a handler       *)
(* enforces its limit (it "mirrors the same comparison" as the server).    *)
(* b = [state |-> "pending" | "received", known |-> BOOLEAN, L |-> digits] *)
(*   known length above M            -> the 413 response                   *)
(*   body not yet received           -> the instruction to fetch it with M *)
(*   otherwise                       -> the request itself                 *)
(***************************************************************************)
RecvBody(b, M) == IF b.known /\ ~DecLeq(b.L, M) THEN [k |-> "Resp", code |-> 413, fetch |-> <<>>]
                  ELSE IF b.state = "pending" THEN [k |-> "Fetch", code |-> 0, fetch |-> M]
                  ELSE [k |-> "Ok", code |-> 0, fetch |-> <<>>]
====
