SPECIFICATION Spec
CONSTANTS
  T = {1}
  L = {1}
  MaxOps = 4
  EnableTags = TRUE
  EnableRouting = TRUE
  EnableWrap = TRUE
INVARIANTS ExactlyOnce Routed StoppedIsError Isolation FixedOrder GuardMatches WrapperFaithful
CHECK_DEADLOCK FALSE
