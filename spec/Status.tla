---- MODULE Status ----
(***************************************************************************)
(* C20: status-named constructors, the HttpError -> Response table, and the  *)
(* close marking of 5xx responses.                                           *)
(***************************************************************************)
EXTENDS Bytes, TLC
\* a constructor named ..._ddd produces a normal response with exactly that code
CtorOk(e) == LET n == Len(e.name) IN
             /\ n >= 4 /\ e.name[n-3] = 95 /\ \A i \in (n-2)..n : e.name[i] \in Digit
             /\ e.code = (e.name[n-2] - 48) * 100 + (e.name[n-1] - 48) * 10 + (e.name[n] - 48)
             /\ e.normal /\ e.res = "Ok" /\ e.wireCode = e.code
\* the documented class of every internal error
Class == [ BodyNotUtf8 |-> 400, InvalidContentLength |-> 400, MalformedCookieHeader |-> 400, MalformedHeaderLine |-> 400, MalformedPath |-> 400,
           MalformedRequestLine |-> 400, MissingRequestLine |-> 400, Truncated |-> 400, UnsupportedTransferEncoding |-> 400,
           BodyTooLong |-> 413, HeadTooLong |-> 431, UnsupportedProtocol |-> 505,
           AlreadyGotBody |-> 500, BodyNotAvailable |-> 500, BodyNotRead |-> 500, CacheDirNotConfigured |-> 500, DuplicateContentLengthHeader |-> 500,
           DuplicateContentTypeHeader |-> 500, DuplicateTransferEncodingHeader |-> 500, ErrorReadingFile |-> 500, ErrorReadingResponseBody |-> 500,
           ErrorSavingFile |-> 500, HandlerDeadlineExceeded |-> 500, ResponseAlreadySent |-> 500, ResponseNotSent |-> 500, TimerThreadNotStarted |-> 500,
           UnwritableResponse |-> 500 ]
ClientCaused(code) == code \in {400, 413, 431, 505}
ErrMapOk(e) == IF e.variant = "Disconnected" THEN ~e.normal                              \* nothing to say to a peer that is gone
               ELSE /\ e.variant \in DOMAIN Class /\ e.normal /\ e.code = Class[e.variant]
                    /\ ~e.leaks                                                          \* never the underlying error text
                    /\ (e.code \in {400, 431, 505} => e.namesKind)                       \* the diagnostic names the kind
                    /\ e.res = "Ok" /\ e.wireCode = e.code /\ e.statusLines = 1          \* serialises and parses back
\* every 5xx that is sent is marked connection: close (and closes the write side); nothing else is
CloseMarkOk(e) == LET five == e.code >= 500 /\ e.code <= 599 IN
                  e.res = "Ok" /\ e.gotCode = e.code /\ e.closeHeader = five /\ e.shut = five
\* the same for the answers the server itself generates for bad requests, read off the wire: an answer was sent, and it
\* carries the marker iff the code that was written is in the 5xx range
WireCloseMarkOk(e) == e.code >= 100 /\ e.closeHeader = (e.code >= 500 /\ e.code <= 599)
====
