---- MODULE Trace_Server ----
(***************************************************************************)
(* impl -> spec for C12 / C13: the hook log of a real server run.  Every     *)
(* logged event is one action of the accept loop / token set / connection    *)
(* task (hook events carry sequence numbers assigned inside servlin at the    *)
(* linearisation point) or one step of the harness (stamped from the same     *)
(* counter before the step is performed), so nothing has to be inferred.      *)
(* Limit, Conservation and StopOrder are evaluated after every event.         *)
(* The step function is ServerSteps!Apply, the one MC_ServerSteps model-checks.   *)
(* "Total form": an event no action explains is collected with its scenario   *)
(* id and the rest of that scenario is skipped.                               *)
(***************************************************************************)
EXTENDS ServerSteps, Json, IOUtils, TLCExt, SequencesExt
Rec == ndJsonDeserialize(IOEnv.TRACE)
VARIABLES l, bad, skipping, nvalid, sv
tvars == <<l, bad, skipping, nvalid, sv>>
E == Rec[l]

TInit == l = 1 /\ bad = {} /\ skipping = FALSE /\ nvalid = 0 /\ sv = Init0(0)
TNext == /\ l <= Len(Rec) /\ l' = l + 1
         /\ IF E.ev = "Reset" THEN sv' = Init0(E.max) /\ skipping' = FALSE /\ UNCHANGED <<bad, nvalid>>
            ELSE IF skipping THEN UNCHANGED <<bad, skipping, nvalid, sv>>
            ELSE LET r == Apply(sv, E) IN
                 IF ~r.ok THEN bad' = bad \cup {<<E.sid, l, <<E.ev>> \o r.why>>} /\ skipping' = TRUE /\ UNCHANGED <<nvalid, sv>>
                 ELSE IF ~Limit(r.sv) THEN bad' = bad \cup {<<E.sid, l, <<"Limit exceeded", r.sv.live, r.sv.accepted, r.sv.max>> >>} /\ skipping' = TRUE /\ UNCHANGED <<nvalid, sv>>
                 ELSE IF ~Conservation(r.sv) THEN bad' = bad \cup {<<E.sid, l, <<"Conservation broken at", E.ev, r.sv.avail, r.sv.pendingRet>> >>} /\ skipping' = TRUE /\ UNCHANGED <<nvalid, sv>>
                 ELSE IF ~AtMostOneMore(r.sv) THEN bad' = bad \cup {<<E.sid, l, <<"a connection served more than one further request after revocation", r.sv.afterRevoke>> >>} /\ skipping' = TRUE /\ UNCHANGED <<nvalid, sv>>
                 ELSE IF ~StopOrder(r.sv) THEN bad' = bad \cup {<<E.sid, l, <<"StopOrder broken at", E.ev>> >>} /\ skipping' = TRUE /\ UNCHANGED <<nvalid, sv>>
                 ELSE /\ sv' = [r.sv EXCEPT !.maxSeen = IF Cardinality(r.sv.live) > @ THEN Cardinality(r.sv.live) ELSE @]
                      /\ nvalid' = (IF E.ev = "Quiesce" THEN nvalid + 1 ELSE nvalid) /\ UNCHANGED <<bad, skipping>>
TSpec == TInit /\ [][TNext]_tvars
Report == IF l = Len(Rec) + 1
          THEN JsonSerialize(IOEnv.REPORT, [nvalid |-> nvalid, bad |-> SetToSeq(bad), events |-> Len(Rec)])
          ELSE TRUE
====
