---- MODULE Trace_Server ----
(***************************************************************************)
(* impl -> spec for C12 / C13: the hook log of a real server run.  Every     *)
(* logged event is one action of the accept loop / token set / connection    *)
(* task (hook events carry sequence numbers assigned inside servlin at the    *)
(* linearisation point) or one step of the harness (stamped from the same     *)
(* counter before the step is performed), so nothing has to be inferred.      *)
(* Limit, Conservation and StopOrder are evaluated after every event.         *)
(* "Total form": an event no action explains is collected with its scenario   *)
(* id and the rest of that scenario is skipped.                               *)
(***************************************************************************)
EXTENDS Naturals, FiniteSets, Sequences, TLC, Json, IOUtils, TLCExt, SequencesExt
Rec == ndJsonDeserialize(IOEnv.TRACE)
VARIABLES l, bad, skipping, nvalid, sv
tvars == <<l, bad, skipping, nvalid, sv>>
E == Rec[l]

\* revoked: 0 = no, 1 = the harness is about to drop the permit, 2 = the drop has returned
Init0(max) == [max |-> max, avail |-> max, accPc |-> "Top", accHolds |-> FALSE, pendingRet |-> 0, backlog |-> 0,
               accepted |-> {}, live |-> {}, revoked |-> 0, loopReturned |-> FALSE, stoppedSent |-> FALSE,
               stoppedSeen |-> FALSE, afterRevoke |-> <<>>, inflight |-> {}, written |-> <<>>, ended |-> {},
               maxSeen |-> 0]
Get(f, k) == IF k \in DOMAIN f THEN f[k] ELSE 0
Inc(f, k) == IF k \in DOMAIN f THEN [f EXCEPT ![k] = @ + 1] ELSE f @@ (k :> 1)
Ok(t) == [ok |-> TRUE, sv |-> t, why |-> <<>>]
No(why) == [ok |-> FALSE, sv |-> sv, why |-> why]

\* one event applied to the state: [ok, sv, why]
Apply(t, e) ==
  CASE e.ev = "ClientConnect" -> Ok([t EXCEPT !.backlog = @ + 1])
    [] e.ev = "ClientConnectFailed" -> IF t.backlog > 0 THEN Ok([t EXCEPT !.backlog = @ - 1]) ELSE No(<<"connect failed without a connect">>)
    [] e.ev \in {"ClientConnected", "ClientSend", "GateOpen", "ClientClose", "LateConnect", "HEnter", "RespWritten", "RespFailed", "BodyCopied", "ClientGot"} ->
         IF e.ev = "HEnter" /\ t.revoked < 1 /\ e.b % 10 # 1 THEN Ok([t EXCEPT !.inflight = @ \cup {<<e.a, e.b>>}])   \* a handler running when the permit is revoked
         ELSE IF e.ev = "RespWritten" THEN Ok([t EXCEPT !.written = Inc(@, e.a), !.inflight = {p \in @ : p[1] # e.a}])
         ELSE Ok(t)
    [] e.ev = "Quiesce" ->
         \* nothing leaks once everything has wound down, and every handler that was running at revocation answered
         IF t.live # {} \/ t.accepted # {} \/ t.pendingRet # 0 THEN No(<<"slots not conserved at quiescence", t.live, t.accepted, t.pendingRet>>)
         ELSE IF t.avail + (IF t.accHolds THEN 1 ELSE 0) # t.max THEN No(<<"slots lost", t.avail, t.max>>)
         ELSE IF {p \in t.inflight : p[1] \notin {e.aborted[i] : i \in 1..Len(e.aborted)}} # {} THEN No(<<"in-flight request got no response", t.inflight>>)
         ELSE Ok(t)
    [] e.ev = "RefillOk" -> IF e.a = t.max THEN Ok(t) ELSE No(<<"after the history only", e.a, "of", t.max, "connections could be serviced at once">>)
    [] e.ev = "RevokeBegin" -> Ok([t EXCEPT !.revoked = 1])
    [] e.ev = "RevokeDone" -> Ok([t EXCEPT !.revoked = 2])
    [] e.ev = "StoppedReceived" -> IF t.stoppedSent THEN Ok([t EXCEPT !.stoppedSeen = TRUE]) ELSE No(<<"stop signal received but never sent">>)
    [] e.ev = "StopTimeout" -> No(<<"no stop signal within the deadline after revocation; accept loop at", t.accPc>>)
    [] e.ev = "LateConnectRefused" -> Ok(t)
    [] e.ev = "LateConnectAccepted" -> No(<<"connection attempt served after the stop signal">>)
    \* ---- accept loop ----
    [] e.ev = "AccWait" -> IF t.accPc = "Top" /\ ~t.accHolds THEN Ok([t EXCEPT !.accPc = "Waiting"]) ELSE No(<<"AccWait at", t.accPc>>)
    [] e.ev = "TokenTake" -> IF t.accPc = "Waiting" /\ t.avail > 0 THEN Ok([t EXCEPT !.avail = @ - 1, !.accHolds = TRUE, !.accPc = "Check"])
                             ELSE No(<<"TokenTake with avail", t.avail, "at", t.accPc>>)
    [] e.ev = "AccRevokedInWait" -> IF t.accPc = "Waiting" /\ t.revoked >= 1 THEN Ok([t EXCEPT !.accPc = "Done"]) ELSE No(<<"AccRevokedInWait", t.accPc, t.revoked>>)
    [] e.ev = "AccRevokedExit" -> IF t.accPc = "Check" /\ t.revoked >= 1 THEN Ok([t EXCEPT !.accPc = "Done", !.accHolds = FALSE, !.pendingRet = @ + 1])
                                  ELSE No(<<"AccRevokedExit", t.accPc, t.revoked>>)
    [] e.ev = "AccAccepting" -> IF t.accPc = "Check" /\ t.accHolds THEN Ok([t EXCEPT !.accPc = "Accepting"]) ELSE No(<<"AccAccepting", t.accPc>>)
    [] e.ev = "AccAccepted" -> IF t.accPc = "Accepting" /\ t.accHolds /\ t.backlog > 0 /\ ~t.loopReturned
                               THEN Ok([t EXCEPT !.backlog = @ - 1, !.accepted = @ \cup {e.a}, !.accHolds = FALSE, !.accPc = "IterEnd"])
                               ELSE No(<<"AccAccepted", t.accPc, t.accHolds, t.backlog, t.loopReturned>>)
    [] e.ev = "AccAcceptErr" -> IF t.accPc = "Accepting" /\ t.accHolds THEN Ok([t EXCEPT !.accHolds = FALSE, !.pendingRet = @ + 1, !.accPc = "IterEnd"])
                                ELSE No(<<"AccAcceptErr", t.accPc>>)
    [] e.ev = "AccIterEnd" -> IF t.accPc = "IterEnd" THEN Ok([t EXCEPT !.accPc = "Top"])
                              ELSE IF t.accPc = "Accepting" /\ t.revoked >= 1 /\ t.accHolds                    \* the permit woke the loop
                              THEN Ok([t EXCEPT !.accHolds = FALSE, !.pendingRet = @ + 1, !.accPc = "Top"])
                              ELSE No(<<"AccIterEnd", t.accPc, t.revoked>>)
    [] e.ev = "AcceptLoopReturned" -> IF t.accPc = "Done" /\ t.revoked >= 1 THEN Ok([t EXCEPT !.loopReturned = TRUE]) ELSE No(<<"accept loop returned at", t.accPc, t.revoked>>)
    [] e.ev = "StoppedSending" -> IF t.loopReturned THEN Ok([t EXCEPT !.stoppedSent = TRUE]) ELSE No(<<"stop signal before the listener was released">>)
    \* ---- tokens and connection tasks ----
    [] e.ev = "TokenReturn" -> IF t.pendingRet > 0 THEN Ok([t EXCEPT !.pendingRet = @ - 1, !.avail = @ + 1]) ELSE No(<<"a token was returned that nobody held">>)
    [] e.ev = "ConnBegin" -> IF e.a \in t.accepted THEN Ok([t EXCEPT !.accepted = @ \ {e.a}, !.live = @ \cup {e.a}]) ELSE No(<<"ConnBegin of a connection that was not accepted", e.a>>)
    [] e.ev = "ReqRead" -> IF e.a \notin t.live THEN No(<<"request read on a connection that is not live", e.a>>)
                           ELSE IF e.a \in t.ended THEN No(<<"request read after the connection ended", e.a>>)
                           ELSE IF t.revoked = 2 /\ Get(t.afterRevoke, e.a) >= 1 THEN No(<<"a connection served more than one further request after revocation", e.a>>)
                           ELSE Ok(IF t.revoked = 2 THEN [t EXCEPT !.afterRevoke = Inc(@, e.a)] ELSE t)
    [] e.ev = "ConnEnd" -> IF e.a \in t.live THEN Ok([t EXCEPT !.live = @ \ {e.a}, !.pendingRet = @ + 1, !.ended = @ \cup {e.a}]) ELSE No(<<"ConnEnd of a connection that is not live", e.a>>)
    [] OTHER -> Ok(t)

\* C12
Limit(t) == Cardinality(t.live \cup t.accepted) <= t.max
Conservation(t) == t.avail + Cardinality(t.live) + Cardinality(t.accepted) + t.pendingRet + (IF t.accHolds THEN 1 ELSE 0) = t.max
\* C13
StopOrder(t) == (t.stoppedSent => t.loopReturned) /\ (t.loopReturned => t.revoked >= 1)

TInit == l = 1 /\ bad = {} /\ skipping = FALSE /\ nvalid = 0 /\ sv = Init0(0)
TNext == /\ l <= Len(Rec) /\ l' = l + 1
         /\ IF E.ev = "Reset" THEN sv' = Init0(E.max) /\ skipping' = FALSE /\ UNCHANGED <<bad, nvalid>>
            ELSE IF skipping THEN UNCHANGED <<bad, skipping, nvalid, sv>>
            ELSE LET r == Apply(sv, E) IN
                 IF ~r.ok THEN bad' = bad \cup {<<E.sid, l, <<E.ev>> \o r.why>>} /\ skipping' = TRUE /\ UNCHANGED <<nvalid, sv>>
                 ELSE IF ~Limit(r.sv) THEN bad' = bad \cup {<<E.sid, l, <<"Limit exceeded", r.sv.live, r.sv.accepted, r.sv.max>> >>} /\ skipping' = TRUE /\ UNCHANGED <<nvalid, sv>>
                 ELSE IF ~Conservation(r.sv) THEN bad' = bad \cup {<<E.sid, l, <<"Conservation broken at", E.ev, r.sv.avail, r.sv.pendingRet>> >>} /\ skipping' = TRUE /\ UNCHANGED <<nvalid, sv>>
                 ELSE IF ~StopOrder(r.sv) THEN bad' = bad \cup {<<E.sid, l, <<"StopOrder broken at", E.ev>> >>} /\ skipping' = TRUE /\ UNCHANGED <<nvalid, sv>>
                 ELSE /\ sv' = [r.sv EXCEPT !.maxSeen = IF Cardinality(r.sv.live) > @ THEN Cardinality(r.sv.live) ELSE @]
                      /\ nvalid' = (IF E.ev = "Quiesce" THEN nvalid + 1 ELSE nvalid) /\ UNCHANGED <<bad, skipping>>
TSpec == TInit /\ [][TNext]_tvars
Report == IF l = Len(Rec) + 1
          THEN JsonSerialize(IOEnv.REPORT, [nvalid |-> nvalid, bad |-> SetToSeq(bad), events |-> Len(Rec)])
          ELSE TRUE
====
