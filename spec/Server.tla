---- MODULE Server ----
(***************************************************************************)
(* C12 / C13: the accept loop, the token set (connection slots), the permit  *)
(* and the phases of a connection's life, one action per await boundary of   *)
(* accept_loop / handle_http_conn.  Clients, revocation and accept failures  *)
(* are the environment; fairness is assumed for the server's own actions     *)
(* only.  RaceTokenWait = FALSE is the code as it was before the repair of   *)
(* D8 (the wait for a token is not raced against the permit): TLC then finds *)
(* the behaviour in which the stop signal never comes.                       *)
(***************************************************************************)
EXTENDS Naturals, FiniteSets, Sequences, TLC
CONSTANTS Max, Clients, RaceTokenWait   \* RaceTokenWait: TRUE = fixed code (token wait raced against permit)
VARIABLES avail, accPc, accHolds, revoked, listening, stopped, conn, reqsAfterRevoke
vars == <<avail, accPc, accHolds, revoked, listening, stopped, conn, reqsAfterRevoke>>
Serviced == {c \in Clients : conn[c] \in {"idle", "reading", "handler", "writing"}}
Init == /\ avail = Max /\ accPc = "WaitToken" /\ accHolds = FALSE /\ revoked = FALSE
        /\ listening = TRUE /\ stopped = FALSE /\ conn = [c \in Clients |-> "none"]
        /\ reqsAfterRevoke = [c \in Clients |-> 0]
\* ---- clients (environment) ----
ClientConnect(c) == conn[c] = "none" /\ listening /\ conn' = [conn EXCEPT ![c] = "backlog"] /\ UNCHANGED <<avail, accPc, accHolds, revoked, listening, stopped, reqsAfterRevoke>>
ClientSend(c) == conn[c] = "idle" /\ conn' = [conn EXCEPT ![c] = "reading"]
                 /\ reqsAfterRevoke' = [reqsAfterRevoke EXCEPT ![c] = IF revoked THEN @ + 1 ELSE @]
                 /\ UNCHANGED <<avail, accPc, accHolds, revoked, listening, stopped>>
ClientAbort(c) == conn[c] \in {"idle", "reading"} /\ conn' = [conn EXCEPT ![c] = "closed"] /\ avail' = avail + 1
                  /\ UNCHANGED <<accPc, accHolds, revoked, listening, stopped, reqsAfterRevoke>>
Revoke == ~revoked /\ revoked' = TRUE /\ UNCHANGED <<avail, accPc, accHolds, listening, stopped, conn, reqsAfterRevoke>>
\* ---- accept loop ----
AccTake == accPc = "WaitToken" /\ avail > 0 /\ avail' = avail - 1 /\ accHolds' = TRUE /\ accPc' = "CheckPermit"
           /\ UNCHANGED <<revoked, listening, stopped, conn, reqsAfterRevoke>>
AccWaitSeesRevoke == RaceTokenWait /\ accPc = "WaitToken" /\ revoked /\ accPc' = "Done"
           /\ UNCHANGED <<avail, accHolds, revoked, listening, stopped, conn, reqsAfterRevoke>>
AccCheck == accPc = "CheckPermit" /\ (IF revoked THEN accPc' = "Done" /\ accHolds' = FALSE /\ avail' = avail + 1
                                      ELSE accPc' = "Accepting" /\ UNCHANGED <<accHolds, avail>>)
           /\ UNCHANGED <<revoked, listening, stopped, conn, reqsAfterRevoke>>
AccAccept(c) == accPc = "Accepting" /\ conn[c] = "backlog" /\ conn' = [conn EXCEPT ![c] = "idle"] /\ accHolds' = FALSE
           /\ accPc' = "WaitToken" /\ UNCHANGED <<avail, revoked, listening, stopped, reqsAfterRevoke>>
AccFail == accPc = "Accepting" /\ accHolds' = FALSE /\ avail' = avail + 1 /\ accPc' = "Sleeping"
           /\ UNCHANGED <<revoked, listening, stopped, conn, reqsAfterRevoke>>
AccWake == accPc = "Sleeping" /\ accPc' = "WaitToken" /\ UNCHANGED <<avail, accHolds, revoked, listening, stopped, conn, reqsAfterRevoke>>
AccPermitWoke == accPc = "Accepting" /\ revoked /\ accHolds' = FALSE /\ avail' = avail + 1 /\ accPc' = "WaitToken"
           /\ UNCHANGED <<revoked, listening, stopped, conn, reqsAfterRevoke>>
AccReturn == accPc = "Done" /\ listening /\ listening' = FALSE
           /\ conn' = [c \in Clients |-> IF conn[c] = "backlog" THEN "refused" ELSE conn[c]]
           /\ UNCHANGED <<avail, accPc, accHolds, revoked, stopped, reqsAfterRevoke>>
SendStopped == accPc = "Done" /\ ~listening /\ ~stopped /\ stopped' = TRUE
           /\ UNCHANGED <<avail, accPc, accHolds, revoked, listening, conn, reqsAfterRevoke>>
\* ---- connection task ----
ConnRead(c) == conn[c] = "reading" /\ conn' = [conn EXCEPT ![c] = "handler"] /\ UNCHANGED <<avail, accPc, accHolds, revoked, listening, stopped, reqsAfterRevoke>>
ConnHandled(c) == conn[c] = "handler" /\ conn' = [conn EXCEPT ![c] = "writing"] /\ UNCHANGED <<avail, accPc, accHolds, revoked, listening, stopped, reqsAfterRevoke>>
ConnWrote(c, keep) == conn[c] = "writing"
           /\ (IF keep /\ ~revoked THEN conn' = [conn EXCEPT ![c] = "idle"] /\ UNCHANGED avail
              ELSE conn' = [conn EXCEPT ![c] = "closed"] /\ avail' = avail + 1)
           /\ UNCHANGED <<accPc, accHolds, revoked, listening, stopped, reqsAfterRevoke>>
ServerStep == AccTake \/ AccWaitSeesRevoke \/ AccCheck \/ (\E c \in Clients : AccAccept(c)) \/ AccWake \/ AccPermitWoke \/ AccReturn \/ SendStopped
              \/ \E c \in Clients : ConnRead(c) \/ ConnHandled(c) \/ \E k \in BOOLEAN : ConnWrote(c, k)
EnvStep == Revoke \/ AccFail \/ \E c \in Clients : ClientConnect(c) \/ ClientSend(c) \/ ClientAbort(c)
Next == ServerStep \/ EnvStep
Spec == Init /\ [][Next]_vars /\ WF_vars(ServerStep)
\* ---- properties ----
Limit == Cardinality(Serviced) <= Max
Conservation == avail + Cardinality(Serviced) + (IF accHolds THEN 1 ELSE 0) = Max
StopOrder == stopped => (revoked /\ ~listening)
AtMostOneMore == \A c \in Clients : reqsAfterRevoke[c] <= 1
Prompt == revoked ~> stopped
====
