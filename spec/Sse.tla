---- MODULE Sse ----
(***************************************************************************)
(* C11: the event-stream body at API granularity.  A bounded queue between  *)
(* sender handles (send / clone / disconnect / drop) and the serialiser      *)
(* future, which is polled by the connection task (WriterPoll): it drains    *)
(* the queue, one chunk per event, and writes the terminating chunk when the *)
(* queue is empty and no handle is connected any more.  A sender never       *)
(* blocks: a full queue or a departed client disconnects it.                 *)
(* ZeroByteEvents = the events whose encoding is empty; {} in the repaired   *)
(* code.  With {"empty"} (the code before the repair of D7a) TLC finds the   *)
(* terminator being sent while a sender is still connected.                  *)
(***************************************************************************)
EXTENDS Naturals, Sequences, FiniteSets, TLC
CONSTANTS Cap, MaxSteps, Handles, Events, ZeroByteEvents   \* ZeroByteEvents: events whose encoding is empty (pinned-tree defect D7a: {"empty"}; fixed: {})
VARIABLES queue, hstate, rxAlive, out, terminated, accepted, steps, nextId
vars == <<queue, hstate, rxAlive, out, terminated, accepted, steps, nextId>>
\* hstate[h] \in {"unused", "connected", "disconnected", "dropped"}
Live == {h \in Handles : hstate[h] = "connected"}
Init == /\ queue = <<>> /\ hstate = [h \in Handles |-> IF h = CHOOSE x \in Handles : TRUE THEN "connected" ELSE "unused"]
        /\ rxAlive = TRUE /\ out = <<>> /\ terminated = FALSE /\ accepted = <<>> /\ steps = 0 /\ nextId = 1
Tick == steps < MaxSteps /\ steps' = steps + 1
Send(h, e) == /\ Tick /\ hstate[h] \in {"connected", "disconnected"}
              /\ IF hstate[h] = "connected"
                 THEN IF rxAlive /\ Len(queue) < Cap
                      THEN /\ queue' = Append(queue, [id |-> nextId, e |-> e]) /\ accepted' = Append(accepted, [id |-> nextId, e |-> e])
                           /\ nextId' = nextId + 1 /\ UNCHANGED hstate
                      ELSE /\ hstate' = [hstate EXCEPT ![h] = "disconnected"] /\ UNCHANGED <<queue, accepted, nextId>>
                 ELSE UNCHANGED <<queue, accepted, nextId, hstate>>
              /\ UNCHANGED <<rxAlive, out, terminated>>
(* n sends in a row by one connected handle (used by the behaviour generator to reach a full queue of the real *)
(* capacity within a few steps): exactly what n applications of Send do                                       *)
SendMany(h, e, n) ==
  /\ Tick /\ hstate[h] = "connected" /\ rxAlive
  /\ LET room == Cap - Len(queue)
         k == IF n <= room THEN n ELSE room
         new == [i \in 1..k |-> [id |-> nextId + i - 1, e |-> e]] IN
     /\ queue' = queue \o new /\ accepted' = accepted \o new /\ nextId' = nextId + k
     /\ hstate' = IF n > room THEN [hstate EXCEPT ![h] = "disconnected"] ELSE hstate
  /\ UNCHANGED <<rxAlive, out, terminated>>
Clone(h, g) == /\ Tick /\ hstate[h] \in {"connected", "disconnected"} /\ hstate[g] = "unused"
               /\ hstate' = [hstate EXCEPT ![g] = hstate[h]] /\ UNCHANGED <<queue, rxAlive, out, terminated, accepted, nextId>>
Disconnect(h) == /\ Tick /\ hstate[h] \in {"connected", "disconnected"} /\ hstate' = [hstate EXCEPT ![h] = "disconnected"]
               /\ UNCHANGED <<queue, rxAlive, out, terminated, accepted, nextId>>
DropHandle(h) == /\ Tick /\ hstate[h] \in {"connected", "disconnected"} /\ hstate' = [hstate EXCEPT ![h] = "dropped"]
               /\ UNCHANGED <<queue, rxAlive, out, terminated, accepted, nextId>>
\* one poll of the serialiser future: copies events until the receiver would block
RECURSIVE Drain(_,_)
Drain(q, o) == IF q = <<>> THEN [o |-> o, q |-> <<>>, zero |-> FALSE]
               ELSE IF Head(q).e \in ZeroByteEvents THEN [o |-> o, q |-> Tail(q), zero |-> TRUE]   \* 0-byte read == EOF to the chunk writer
               ELSE Drain(Tail(q), Append(o, Head(q)))
WriterPoll == /\ rxAlive /\ ~terminated
              /\ LET d == Drain(queue, out) IN
                 /\ out' = d.o
                 /\ IF d.zero THEN terminated' = TRUE /\ rxAlive' = FALSE /\ queue' = <<>>
                    ELSE IF Live = {} THEN terminated' = TRUE /\ rxAlive' = FALSE /\ queue' = <<>>
                    ELSE UNCHANGED <<terminated, rxAlive>> /\ queue' = <<>>
              /\ UNCHANGED <<hstate, accepted, steps, nextId>>
Next == WriterPoll \/ \E h \in Handles : (\E e \in Events : Send(h, e)) \/ (\E g \in Handles : Clone(h, g)) \/ Disconnect(h) \/ DropHandle(h)
Spec == Init /\ [][Next]_vars
IsPrefix(a, b) == Len(a) <= Len(b) /\ SubSeq(b, 1, Len(a)) = a
ExactlyOnceInOrder == IsPrefix(out, accepted) /\ (queue = <<>> /\ rxAlive => out = accepted)
TerminatorOnlyWhenAllGone == terminated => Live = {}
DeliveredBeforeTerminator == terminated => out = accepted
====
