SPECIFICATION HSpec
CONSTANTS Names <- MCNames
 LookNames <- MCLook
 MaxFields = 4
 MaxOps = 6
INVARIANTS Subsequence Partition OnlyIffOne LookupsDoNotChange
CHECK_DEADLOCK FALSE
