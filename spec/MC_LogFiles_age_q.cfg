SPECIFICATION Spec
CONSTANTS
  MaxWrite = 4
  Keep = 8
  KeepAge = 3
  MaxWriteAge = 2
  FixPush = TRUE
  FixScan = TRUE
  FixSat = TRUE
  Sizes = {1, 2, 3}
  StartSize = 1
  MaxEvents = 4
  MaxNow = 14
  MaxRestarts = 2
  ForeignLens = {2, 5}
  ForeignAges = {1, 5}
  MaxForeign = 1
  TiesPossible = FALSE
INVARIANTS TotalBound PerFileBound Contiguous Bookkeeping KnownSorted KeepsRunning AgeBound BigStepAgrees
PROPERTIES OldestFirst SuffixOnly
CHECK_DEADLOCK FALSE
