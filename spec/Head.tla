---- MODULE Head ----
(***************************************************************************)
(* RFC 7230 section 3 request-head grammar as an executable oracle (C02),  *)
(* written from the ABNF, not from head.rs.  Bytes are integers 0..255.    *)
(*   RefParse(head) = [class, method, path, query, hasQuery, fields, errs] *)
(*   class "accept": the code must expose exactly these values             *)
(*   class "reject": the code must fail with an error in errs              *)
(*   class "free"  : RFC leaves it to the recipient / pinned leniency      *)
(***************************************************************************)
EXTENDS Bytes, TLC


ObsText == 128..255
Unreserved == Alpha \cup Digit \cup {45, 46, 95, 126}
SubDelims == {33, 36, 38, 39, 40, 41, 42, 43, 44, 59, 61}
PcharNoPct == Unreserved \cup SubDelims \cup {58, 64}


Has(s, b) == \E i \in 1..Len(s) : s[i] = b
AllIn(s, S) == \A i \in 1..Len(s) : s[i] \in S

\* ---------- request line ----------
Version == <<72, 84, 84, 80, 47, 49, 46, 49>>   \* "HTTP/1.1"
NoWs(s) == \A i \in 1..Len(s) : s[i] \notin {SP, HT, CR, LF}

\* percent triplets well formed and every other byte from Allowed
RECURSIVE PctOk(_, _, _)
PctOk(s, i, Allowed) ==
  IF i > Len(s) THEN TRUE
  ELSE IF s[i] = 37 THEN i + 2 <= Len(s) /\ s[i+1] \in HexDig /\ s[i+2] \in HexDig /\ PctOk(s, i+3, Allowed)
  ELSE s[i] \in Allowed /\ PctOk(s, i+1, Allowed)

DotSeg(seg) == LET l == [i \in 1..Len(seg) |-> Lower(seg[i])] IN
  l \in { <<46>>, <<46, 46>>, <<37, 50, 101>>, <<37, 50, 101, 46>>, <<46, 37, 50, 101>>, <<37, 50, 101, 37, 50, 101>> }

\* UTF-8 well-formedness (RFC 3629: no overlong forms, no surrogates, nothing above U+10FFFF)
Cont(s, i) == i <= Len(s) /\ s[i] \in 128..191
RECURSIVE Utf8Ok(_, _)
Utf8Ok(s, i) ==
  IF i > Len(s) THEN TRUE
  ELSE LET b == s[i] IN
       IF b < 128 THEN Utf8Ok(s, i+1)
       ELSE IF b \in 194..223 THEN Cont(s, i+1) /\ Utf8Ok(s, i+2)
       ELSE IF b = 224 THEN i+1 <= Len(s) /\ s[i+1] \in 160..191 /\ Cont(s, i+2) /\ Utf8Ok(s, i+3)
       ELSE IF b \in (225..236) \cup {238, 239} THEN Cont(s, i+1) /\ Cont(s, i+2) /\ Utf8Ok(s, i+3)
       ELSE IF b = 237 THEN i+1 <= Len(s) /\ s[i+1] \in 128..159 /\ Cont(s, i+2) /\ Utf8Ok(s, i+3)
       ELSE IF b = 240 THEN i+1 <= Len(s) /\ s[i+1] \in 144..191 /\ Cont(s, i+2) /\ Cont(s, i+3) /\ Utf8Ok(s, i+4)
       ELSE IF b \in 241..243 THEN Cont(s, i+1) /\ Cont(s, i+2) /\ Cont(s, i+3) /\ Utf8Ok(s, i+4)
       ELSE IF b = 244 THEN i+1 <= Len(s) /\ s[i+1] \in 128..143 /\ Cont(s, i+2) /\ Cont(s, i+3) /\ Utf8Ok(s, i+4)
       ELSE FALSE
HasHigh(t) == \E i \in 1..Len(t) : t[i] >= 128
HexUp(n) == IF n < 10 THEN 48 + n ELSE 55 + n
RECURSIVE EncHigh(_)
EncHigh(s) == IF s = <<>> THEN <<>>
              ELSE (IF s[1] >= 128 THEN <<37, HexUp(s[1] \div 16), HexUp(s[1] % 16)>> ELSE <<s[1]>>) \o EncHigh(Tail(s))

\* classification of the request-target
TargetClass0(t) ==
  IF t = <<>> \/ t[1] # 47 THEN "badpath"                         \* not origin-form
  ELSE LET q == IndexOf(t, 63)
           path == IF q = 0 THEN t ELSE Sub(t, 1, q-1)
           query == IF q = 0 THEN <<>> ELSE Sub(t, q+1, Len(t))
           segs == Split(Sub(path, 2, Len(path)), 47)
       IN IF /\ PctOk(path, 1, PcharNoPct \cup {47})
             /\ PctOk(query, 1, (PcharNoPct \cup {47, 63}) \ {39})   \* ' in a query is re-encoded by the URL parser: free
             /\ \A k \in 1..Len(segs) : ~DotSeg(segs[k])
          THEN "exact" ELSE "free"
\* Bytes above 127 are outside the grammar.  A target in which they do not even form UTF-8 text is rejected (no text to
\* expose); one in which they do is tolerated by the library, which exposes it percent-encoded: that leniency is pinned
\* ("free"), but if such a target is accepted, what is exposed must still be the bytes that were sent (Faith below).
TargetClass(t) == IF HasHigh(t) /\ ~Utf8Ok(t, 1) THEN "badpath" ELSE TargetClass0(t)
Flat(t) == [i \in 1..Len(t) |-> IF t[i] >= 128 THEN 97 ELSE t[i]]
Faith(t) ==
  IF HasHigh(t) /\ Utf8Ok(t, 1) /\ TargetClass0(Flat(t)) = "exact"
  THEN LET q == IndexOf(t, 63) IN
       [on |-> TRUE, path |-> EncHigh(IF q = 0 THEN t ELSE Sub(t, 1, q-1)), hasQuery |-> q # 0,
        query |-> EncHigh(IF q = 0 THEN <<>> ELSE Sub(t, q+1, Len(t)))]
  ELSE [on |-> FALSE]

ReqLine(line) ==
  LET parts == Split(line, SP) IN
  IF Len(parts) # 3 \/ parts[1] = <<>> \/ parts[2] = <<>> \/ parts[3] = <<>>
     \/ ~AllIn(parts[1], Tchar) \/ ~NoWs(parts[2]) \/ ~NoWs(parts[3])
  THEN [ok |-> FALSE, errs |-> {"MalformedRequestLine"}, free |-> FALSE, faith |-> [on |-> FALSE]]
  ELSE LET tc == TargetClass(parts[2])
           badv == parts[3] # Version
           errs == (IF tc = "badpath" THEN {"MalformedPath"} ELSE {}) \cup (IF badv THEN {"UnsupportedProtocol"} ELSE {})
       IN IF errs # {} /\ (tc # "free") THEN [ok |-> FALSE, errs |-> errs, free |-> FALSE, faith |-> [on |-> FALSE]]
          ELSE IF tc = "free" THEN [ok |-> FALSE, errs |-> errs, free |-> TRUE,
                                    faith |-> IF errs = {} THEN Faith(parts[2]) ELSE [on |-> FALSE]]
          ELSE LET t == parts[2]
                   q == IndexOf(t, 63)
               IN [ok |-> TRUE, errs |-> {}, free |-> FALSE, faith |-> [on |-> FALSE], method |-> parts[1],
                   path |-> IF q = 0 THEN t ELSE Sub(t, 1, q-1),
                   hasQuery |-> q # 0,
                   query |-> IF q = 0 THEN <<>> ELSE Sub(t, q+1, Len(t))]

\* ---------- field line ----------
LStrip(s, S) == LTrimBy(s, S)
RStrip(s, S) == RTrimBy(s, S)

Field0(line) ==
  LET c == IndexOf(line, 58) IN
  IF c <= 1 \/ ~AllIn(Sub(line, 1, c-1), Tchar)
  THEN [cls |-> "reject"]
  ELSE LET raw == Sub(line, c+1, Len(line))
           ows == RStrip(LStrip(raw, {SP, HT}), {SP, HT})            \* what the grammar strips
           lenient == RStrip(LStrip(raw, {SP, HT, CR}), {SP, HT, CR}) \* what the code is pinned to strip
       IN IF ows # lenient THEN [cls |-> "free"]                       \* stray CR next to OWS / line end
          ELSE IF AllIn(ows, Vchar \cup {SP, HT}) THEN [cls |-> "accept", name |-> Sub(line, 1, c-1), value |-> ows]
          ELSE IF \A i \in 1..Len(ows) : ows[i] \in Vchar \cup {SP, HT} \cup ObsText THEN [cls |-> "free"]  \* obs-text
          ELSE [cls |-> "reject"]                                      \* CTL inside the value

Field(line) == Force(Field0, line)

\* ---------- whole head (bytes before the first CRLFCRLF) ----------
AllErrs == {"MalformedRequestLine", "MalformedPath", "UnsupportedProtocol", "MalformedHeader"}
RefLines0(lines) ==
  LET rl == ReqLine(lines[1])
      fs == [k \in 1..(Len(lines) - 1) |-> Field(lines[k+1])]
      anyFree == rl.free \/ (\E k \in 1..Len(fs) : fs[k].cls = "free")
      fieldReject == \E k \in 1..Len(fs) : fs[k].cls = "reject"
      errs == (IF rl.ok THEN {} ELSE rl.errs) \cup (IF fieldReject THEN {"MalformedHeader"} ELSE {})
  IN IF anyFree THEN [class |-> "free", errs |-> errs \cup AllErrs, faith |-> rl.faith, lf |-> [on |-> FALSE]]
     ELSE IF errs # {} THEN [class |-> "reject", errs |-> errs]
     ELSE [class |-> "accept", errs |-> {}, method |-> rl.method, path |-> rl.path, hasQuery |-> rl.hasQuery, query |-> rl.query,
           fields |-> [k \in 1..Len(fs) |-> <<fs[k].name, fs[k].value>>]]
\* A bare LF inside a line: RFC 7230 section 3.5 lets a recipient take it for a line end, and the library is pinned to doing
\* so.  Refusing such a head is as good; but if it is accepted it must be the head that results from taking every bare LF
\* for a line end -- nothing repaired beyond that, and nothing accepted that would be rejected with CR LF in its place.
RECURSIVE FlattenLF(_)
FlattenLF(lines) == IF lines = <<>> THEN <<>> ELSE Split(lines[1], LF) \o FlattenLF(Tail(lines))
RefLines(lines) ==
  IF \E k \in 1..Len(lines) : Has(lines[k], LF)
  THEN LET r == RefLines0(FlattenLF(lines)) IN
       IF r.class = "free" THEN r
       ELSE [class |-> "free", errs |-> AllErrs, faith |-> [on |-> FALSE], lf |-> [on |-> TRUE, ref |-> r]]
  ELSE RefLines0(lines)
RefParse(head) == Force(RefLines, SplitCRLF(head))
====
