---- MODULE Head ----
(***************************************************************************)
(* RFC 7230 section 3 request-head grammar as an executable oracle (C02),  *)
(* written from the ABNF, not from head.rs.  Bytes are integers 0..255.    *)
(*   RefParse(head) = [class, method, path, query, hasQuery, fields, errs] *)
(*   class "accept": the code must expose exactly these values             *)
(*   class "reject": the code must fail with an error in errs              *)
(*   class "free"  : RFC leaves it to the recipient / pinned leniency      *)
(***************************************************************************)
EXTENDS Bytes, TLC


ObsText == 128..255
Unreserved == Alpha \cup Digit \cup {45, 46, 95, 126}
SubDelims == {33, 36, 38, 39, 40, 41, 42, 43, 44, 59, 61}
PcharNoPct == Unreserved \cup SubDelims \cup {58, 64}


Has(s, b) == \E i \in 1..Len(s) : s[i] = b
AllIn(s, S) == \A i \in 1..Len(s) : s[i] \in S

\* ---------- request line ----------
Version == <<72, 84, 84, 80, 47, 49, 46, 49>>   \* "HTTP/1.1"
NoWs(s) == \A i \in 1..Len(s) : s[i] \notin {SP, HT, CR, LF}

\* percent triplets well formed and every other byte from Allowed
RECURSIVE PctOk(_, _, _)
PctOk(s, i, Allowed) ==
  IF i > Len(s) THEN TRUE
  ELSE IF s[i] = 37 THEN i + 2 <= Len(s) /\ s[i+1] \in HexDig /\ s[i+2] \in HexDig /\ PctOk(s, i+3, Allowed)
  ELSE s[i] \in Allowed /\ PctOk(s, i+1, Allowed)

DotSeg(seg) == LET l == [i \in 1..Len(seg) |-> Lower(seg[i])] IN
  l \in { <<46>>, <<46, 46>>, <<37, 50, 101>>, <<37, 50, 101, 46>>, <<46, 37, 50, 101>>, <<37, 50, 101, 37, 50, 101>> }

\* classification of the request-target
TargetClass(t) ==
  IF t = <<>> \/ t[1] # 47 THEN "badpath"                         \* not origin-form
  ELSE LET q == IndexOf(t, 63)
           path == IF q = 0 THEN t ELSE Sub(t, 1, q-1)
           query == IF q = 0 THEN <<>> ELSE Sub(t, q+1, Len(t))
           segs == Split(Sub(path, 2, Len(path)), 47)
       IN IF /\ PctOk(path, 1, PcharNoPct \cup {47})
             /\ PctOk(query, 1, (PcharNoPct \cup {47, 63}) \ {39})   \* ' in a query is re-encoded by the URL parser: free
             /\ \A k \in 1..Len(segs) : ~DotSeg(segs[k])
          THEN "exact" ELSE "free"

ReqLine(line) ==
  LET parts == Split(line, SP) IN
  IF Len(parts) # 3 \/ parts[1] = <<>> \/ parts[2] = <<>> \/ parts[3] = <<>>
     \/ ~AllIn(parts[1], Tchar) \/ ~NoWs(parts[2]) \/ ~NoWs(parts[3])
  THEN [ok |-> FALSE, errs |-> {"MalformedRequestLine"}, free |-> FALSE]
  ELSE LET tc == TargetClass(parts[2])
           badv == parts[3] # Version
           errs == (IF tc = "badpath" THEN {"MalformedPath"} ELSE {}) \cup (IF badv THEN {"UnsupportedProtocol"} ELSE {})
       IN IF errs # {} /\ (tc # "free") THEN [ok |-> FALSE, errs |-> errs, free |-> FALSE]
          ELSE IF tc = "free" THEN [ok |-> FALSE, errs |-> errs, free |-> TRUE]
          ELSE LET t == parts[2]
                   q == IndexOf(t, 63)
               IN [ok |-> TRUE, errs |-> {}, free |-> FALSE, method |-> parts[1],
                   path |-> IF q = 0 THEN t ELSE Sub(t, 1, q-1),
                   hasQuery |-> q # 0,
                   query |-> IF q = 0 THEN <<>> ELSE Sub(t, q+1, Len(t))]

\* ---------- field line ----------
LStrip(s, S) == LTrimBy(s, S)
RStrip(s, S) == RTrimBy(s, S)

Field0(line) ==
  LET c == IndexOf(line, 58) IN
  IF c <= 1 \/ ~AllIn(Sub(line, 1, c-1), Tchar)
  THEN [cls |-> "reject"]
  ELSE LET raw == Sub(line, c+1, Len(line))
           ows == RStrip(LStrip(raw, {SP, HT}), {SP, HT})            \* what the grammar strips
           lenient == RStrip(LStrip(raw, {SP, HT, CR}), {SP, HT, CR}) \* what the code is pinned to strip
       IN IF ows # lenient THEN [cls |-> "free"]                       \* stray CR next to OWS / line end
          ELSE IF AllIn(ows, Vchar \cup {SP, HT}) THEN [cls |-> "accept", name |-> Sub(line, 1, c-1), value |-> ows]
          ELSE IF \A i \in 1..Len(ows) : ows[i] \in Vchar \cup {SP, HT} \cup ObsText THEN [cls |-> "free"]  \* obs-text
          ELSE [cls |-> "reject"]                                      \* CTL inside the value

Field(line) == Force(Field0, line)

\* ---------- whole head (bytes before the first CRLFCRLF) ----------
RefLines(lines) ==
  LET bareLF == \E k \in 1..Len(lines) : Has(lines[k], LF)
      rl == ReqLine(lines[1])
      fs == [k \in 1..(Len(lines) - 1) |-> Field(lines[k+1])]
      anyFree == bareLF \/ rl.free \/ (\E k \in 1..Len(fs) : fs[k].cls = "free")
      fieldReject == \E k \in 1..Len(fs) : fs[k].cls = "reject"
      errs == (IF rl.ok THEN {} ELSE rl.errs) \cup (IF fieldReject THEN {"MalformedHeader"} ELSE {})
  IN IF anyFree THEN [class |-> "free", errs |-> errs \cup {"MalformedRequestLine", "MalformedPath", "UnsupportedProtocol", "MalformedHeader"}]
     ELSE IF errs # {} THEN [class |-> "reject", errs |-> errs]
     ELSE [class |-> "accept", errs |-> {}, method |-> rl.method, path |-> rl.path, hasQuery |-> rl.hasQuery, query |-> rl.query,
           fields |-> [k \in 1..Len(fs) |-> <<fs[k].name, fs[k].value>>]]
RefParse(head) == Force(RefLines, SplitCRLF(head))
====
