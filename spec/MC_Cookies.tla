---- MODULE MC_Cookies ----
(***************************************************************************)
(* Transcription sanity for C15: a Set-Cookie FORMATTER written from the    *)
(* RFC 6265 section 4.1 grammar and the client-side PARSER of section 5.2   *)
(* (module Cookies), written independently, must be inverse to each other   *)
(* on a bounded set of cookies; and the request-side cookie map             *)
(* (Framing!CookieFields) must invert a formatter of cookie-strings.        *)
(***************************************************************************)
EXTENDS Cookies
VARIABLE c
S(str) == str
Names == {<<97>>, <<83, 73, 68>>}
Values == {<<>>, <<118>>, <<97, 61, 98>>}
Domains == {<<>>, <<120, 46, 89>>}
Paths == {<<>>, <<47>>, <<47, 112, 32, 113>>}
Ages == {<<>>, <<53>>, <<49, 48, 57, 57, 53, 49, 49, 54, 50, 55, 55, 55, 54>>}     \* unset, 5, 2^40
SameSites == {<<115, 116, 114, 105, 99, 116>>, <<108, 97, 120>>, <<110, 111, 110, 101>>}
Cs == [name : Names, value : Values, domain : Domains, path : Paths, maxAge : Ages, secure : BOOLEAN, httpOnly : BOOLEAN, sameSite : SameSites]
Attr(n, v) == <<59, 32>> \o n \o <<61>> \o v
Flag(n) == <<59, 32>> \o n
Format(k) == k.name \o <<61>> \o k.value
             \o (IF k.domain # <<>> THEN Attr(<<68,111,109,97,105,110>>, k.domain) ELSE <<>>)
             \o (IF k.httpOnly THEN Flag(<<72,116,116,112,79,110,108,121>>) ELSE <<>>)
             \o (IF k.maxAge # <<>> THEN Attr(<<77,97,120,45,65,103,101>>, k.maxAge) ELSE <<>>)
             \o (IF k.path # <<>> THEN Attr(<<80,97,116,104>>, k.path) ELSE <<>>)
             \o Attr(<<83,97,109,101,83,105,116,101>>, k.sameSite)
             \o (IF k.secure THEN Flag(<<83,101,99,117,114,101>>) ELSE <<>>)
Init == c \in Cs
Next == UNCHANGED c
Spec == Init /\ [][Next]_c
RoundTrip == LET p == Parse(Format(c)) IN
             /\ p.ok /\ p.name = c.name /\ p.value = c.value /\ p.domain = LowerSeq(c.domain) /\ p.path = c.path
             /\ p.maxAge = c.maxAge /\ p.secure = c.secure /\ p.httpOnly = c.httpOnly /\ p.sameSite = c.sameSite
====
