---- MODULE MC_Calendar ----
(* The successor-day machine: one state per day from 1970-01-01 to LastYear-12-31. *)
EXTENDS Calendar
CONSTANT LastYear
VARIABLES y, m, d, n
cvars == <<y, m, d, n>>
CInit == y = 1970 /\ m = 1 /\ d = 1 /\ n = 0
NextDay == /\ ~(y = LastYear /\ m = 12 /\ d = 31)
           /\ n' = n + 1
           /\ IF d < MonthLen(y, m) THEN d' = d + 1 /\ UNCHANGED <<y, m>>
              ELSE IF m < 12 THEN d' = 1 /\ m' = m + 1 /\ UNCHANGED y
              ELSE d' = 1 /\ m' = 1 /\ y' = y + 1
CSpec == CInit /\ [][NextDay]_cvars
Agree == DaysFromCivil(y, m, d) = n
Inverse == CivilFromDays(n) = <<y, m, d>>
====
