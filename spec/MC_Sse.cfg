SPECIFICATION Spec
CONSTANTS Cap = 2
 MaxSteps = 8
 Handles = {h1, h2, h3}
 Events = {"one", "two", "empty"}
 ZeroByteEvents = {}
INVARIANTS ExactlyOnceInOrder TerminatorOnlyWhenAllGone DeliveredBeforeTerminator
CHECK_DEADLOCK FALSE
