INIT GInit
NEXT GNext
VIEW View
ACTION_CONSTRAINT Edge
CONSTANTS Cap = 50
 Bursts = {49}
 MaxSteps = 6
 Handles = {"h1", "h2", "h3"}
 Events = {"one", "two", "empty"}
 ZeroByteEvents = {}
CHECK_DEADLOCK FALSE
