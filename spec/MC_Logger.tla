---- MODULE MC_Logger ----
(***************************************************************************)
(* The logging front end as a multi-threaded machine.  A logging call is   *)
(* two steps, as in the code: compose (read the caller's thread-local      *)
(* tags, sort) and send (under the global-logger mutex: start the default  *)
(* logger if the cell is empty, hand the event to the cell's sender).      *)
(* Install / drop-guard / receiver death interleave freely with the calls  *)
(* of other threads.  TLC checks C18's clauses in every state, stated over *)
(* what the sinks received and a history of the completed calls -- not     *)
(* over the operators that produced them.                                  *)
(***************************************************************************)
EXTENDS Logger, SequencesExt

CONSTANTS T,        \* threads, e.g. {1, 2}
          L,        \* harness-held loggers, e.g. {1, 2}
          MaxOps,   \* operations per thread
          EnableTags, EnableRouting, EnableWrap   \* which groups of actions the configuration explores

TNames == {"ta", "path"}
CNames == {"ca", "request_body_len"}
TV(t) == IF t = 1 THEN {"v1"} ELSE IF t = 2 THEN {"v2"} ELSE {"v3"}
CV(t) == IF t = 1 THEN "c1" ELSE IF t = 2 THEN "c2" ELSE "c3"
Owner(v) == IF \E t \in T : v \in TV(t) \/ v = CV(t) THEN CHOOSE t \in T : v \in TV(t) \/ v = CV(t) ELSE 0
CallChoices(t) == IF EnableTags THEN {<<>>, <<Tag("ca", CV(t)), Tag("request_body_len", CV(t))>>} ELSE {<<>>}
Req(t) == [method |-> "\"GET\"", path |-> "\"/p\"", id |-> "7", bodyLen |-> IF t = 1 THEN "3" ELSE "none"]
Outcomes(t) == {[k |-> "Ok", resp |-> [code |-> "200", bodyLen |-> "none"]],
                [k |-> "Err", hasResp |-> TRUE, resp |-> [code |-> "404", bodyLen |-> "2"], hasMsg |-> FALSE, msg |-> "",
                 hasBt |-> FALSE, tags |-> <<Tag("ca", CV(t))>>],
                [k |-> "Err", hasResp |-> FALSE, resp |-> Bare500, hasMsg |-> TRUE, msg |-> "\"boom\"", hasBt |-> TRUE,
                 tags |-> <<>>]}

VARIABLES tl, g, guards, alive, sinks, ndeliv, phase, pend, wrap, calls, nextCall, nextDefault, ops, panicked
vars == <<tl, g, guards, alive, sinks, ndeliv, phase, pend, wrap, calls, nextCall, nextDefault, ops, panicked>>

NoWrap == [on |-> FALSE, req |-> Req(1), att |-> <<>>, cleared |-> FALSE]
Init == /\ tl = [t \in T |-> <<>>] /\ g = NoneG /\ guards = 0 /\ alive = [i \in L |-> TRUE]
        /\ sinks = [i \in L \cup {Stdout} |-> {}] /\ ndeliv = <<>> /\ phase = [t \in T |-> "idle"] /\ pend = [t \in T |-> <<>>]
        /\ wrap = [t \in T |-> NoWrap] /\ calls = {} /\ nextCall = 1 /\ nextDefault = 1 /\ ops = [t \in T |-> 0]
        /\ panicked = FALSE

Free(t) == phase[t] \in {"idle", "wrapped"} /\ ops[t] < MaxOps
Tick(t) == ops' = [ops EXCEPT ![t] = @ + 1]

AddTag(t) == /\ Free(t) /\ Tick(t)
             /\ \E n \in TNames, v \in TV(t) :
                  /\ tl' = [tl EXCEPT ![t] = Append(@, Tag(n, v))]
                  /\ wrap' = [wrap EXCEPT ![t].att = IF wrap[t].on THEN Append(@, Tag(n, v)) ELSE @]
             /\ UNCHANGED <<g, guards, alive, sinks, ndeliv, phase, pend, calls, nextCall, nextDefault, panicked>>
Clear(t) == /\ Free(t) /\ Tick(t) /\ tl' = [tl EXCEPT ![t] = <<>>]
            /\ wrap' = [wrap EXCEPT ![t].att = <<>>, ![t].cleared = wrap[t].on]
            /\ UNCHANGED <<g, guards, alive, sinks, ndeliv, phase, pend, calls, nextCall, nextDefault, panicked>>

\* step 1 of a logging call: compose
LogBegin(t) == /\ Free(t) /\ Tick(t)
               /\ \E call \in CallChoices(t), m \in (IF EnableTags THEN BOOLEAN ELSE {FALSE}) :
                    LET c == IF m THEN WithMsg("\"hello\"", call) ELSE call
                        level == IF m THEN "error" ELSE "info" IN
                    pend' = [pend EXCEPT ![t] = <<[id |-> <<t, ops[t], "log">>, t |-> t, level |-> level, tags |-> Compose(c, tl[t]),
                                                   call |-> c, thread |-> tl[t], kind |-> "log", back |-> phase[t]]>>]
               /\ phase' = [phase EXCEPT ![t] = "sending"] /\ nextCall' = nextCall + 1
               /\ UNCHANGED <<tl, g, guards, alive, sinks, ndeliv, wrap, calls, nextDefault, panicked>>
\* step 2: send, under the global-logger mutex
LogSend(t) == /\ phase[t] = "sending"
              /\ LET p == pend[t][1]
                     r == SendG(g, alive, nextDefault)
                     ev == [id |-> p.id, t |-> p.t, level |-> p.level, tags |-> p.tags] IN
                 /\ g' = r.g /\ nextDefault' = IF g.k = "None" THEN nextDefault + 1 ELSE nextDefault
                 /\ sinks' = IF r.ok THEN [sinks EXCEPT ![r.sink] = @ \cup {ev}] ELSE sinks
                 /\ ndeliv' = IF r.ok THEN (IF p.id \in DOMAIN ndeliv THEN [ndeliv EXCEPT ![p.id] = @ + 1] ELSE ndeliv @@ (p.id :> 1)) ELSE ndeliv
                 /\ calls' = calls \cup {[p EXCEPT !.back = "", !.tags = <<>>] @@ [ok |-> r.ok, gAtSend |-> g, aliveAtSend |-> alive]}
                 /\ phase' = [phase EXCEPT ![t] = IF p.kind = "wrap" THEN "idle" ELSE p.back]
                 /\ wrap' = IF p.kind = "wrap" THEN [wrap EXCEPT ![t] = NoWrap] ELSE wrap
              /\ pend' = [pend EXCEPT ![t] = <<>>]
              /\ UNCHANGED <<tl, guards, alive, nextCall, ops, panicked>>

Install(t) == /\ Free(t) /\ Tick(t)
              /\ \E id \in L : LET r == InstallG(g, id) IN g' = r.g /\ guards' = IF r.ok THEN guards + 1 ELSE guards
              /\ UNCHANGED <<tl, alive, sinks, ndeliv, phase, pend, wrap, calls, nextCall, nextDefault, panicked>>
DropGuard(t) == /\ Free(t) /\ Tick(t) /\ guards > 0
                /\ LET r == DropG(g) IN g' = r.g /\ panicked' = (panicked \/ r.panics)
                /\ guards' = guards - 1
                /\ UNCHANGED <<tl, alive, sinks, ndeliv, phase, pend, wrap, calls, nextCall, nextDefault>>
Kill == /\ \E id \in L : alive[id] /\ alive' = [alive EXCEPT ![id] = FALSE]
        /\ UNCHANGED <<tl, g, guards, sinks, ndeliv, phase, pend, wrap, calls, nextCall, nextDefault, ops, panicked>>

\* log_request_and_response: clear, attach the request's tags, run the handler (any of the steps above), ...
WrapBegin(t) == /\ phase[t] = "idle" /\ ops[t] < MaxOps /\ Tick(t)
                /\ tl' = [tl EXCEPT ![t] = RequestTags(Req(t))]
                /\ wrap' = [wrap EXCEPT ![t] = [on |-> TRUE, req |-> Req(t), att |-> <<>>, cleared |-> FALSE]]
                /\ phase' = [phase EXCEPT ![t] = "wrapped"]
                /\ UNCHANGED <<g, guards, alive, sinks, ndeliv, pend, calls, nextCall, nextDefault, panicked>>
\* ... attach the duration and log the outcome
WrapEnd(t) == /\ phase[t] = "wrapped"
              /\ \E o \in Outcomes(t) :
                   LET th == Append(tl[t], Tag("duration_ms", "*")) IN
                   /\ tl' = [tl EXCEPT ![t] = th]
                   /\ pend' = [pend EXCEPT ![t] = <<[id |-> <<t, ops[t], "wrap">>, t |-> t, level |-> WrapLevel(o),
                                                     tags |-> Compose(WrapCallTags(o), th), call |-> WrapCallTags(o),
                                                     thread |-> th, kind |-> "wrap", back |-> "idle", o |-> o,
                                                     w |-> wrap[t]]>>]
              /\ phase' = [phase EXCEPT ![t] = "sending"] /\ nextCall' = nextCall + 1
              /\ UNCHANGED <<g, guards, alive, sinks, ndeliv, wrap, calls, nextDefault, ops, panicked>>

Next == \/ (EnableRouting /\ Kill)
        \/ \E t \in T : \/ LogBegin(t) \/ LogSend(t)
                        \/ (EnableTags /\ (AddTag(t) \/ Clear(t)))
                        \/ (EnableRouting /\ (Install(t) \/ DropGuard(t)))
                        \/ (EnableWrap /\ (WrapBegin(t) \/ WrapEnd(t)))
Spec == Init /\ [][Next]_vars

\* ---------------------------------------------------------------- properties (C18)
AllSinks == L \cup {Stdout}
\* sinks are kept as sets (the order inside a sink multiplies states without adding behaviour); the number of
\* deliveries of each call is counted separately, so a duplicate would still be seen
Holders(id) == {s \in AllSinks : \E e \in sinks[s] : e.id = id}
EventOf(id) == CHOOSE e \in UNION {sinks[s] : s \in AllSinks} : e.id = id
Done == calls
Delivered(id) == IF id \in DOMAIN ndeliv THEN ndeliv[id] ELSE 0
\* exactly one event per successful call, none for a failed one, and nothing nobody logged
ExactlyOnce == /\ \A c \in Done : /\ Delivered(c.id) = (IF c.ok THEN 1 ELSE 0)
                                  /\ Cardinality(Holders(c.id)) = (IF c.ok THEN 1 ELSE 0)
               /\ \A s \in AllSinks : \A e \in sinks[s] : \E c \in Done : c.id = e.id
\* ... delivered to the logger installed at that moment, or to the stdout default when none is
Routed == \A c \in Done : c.ok =>
            Holders(c.id) = {IF c.gAtSend.k = "Some" THEN c.gAtSend.id ELSE Stdout}
\* a stopped logger is an error, nothing else is
StoppedIsError == \A c \in Done : c.ok = (c.gAtSend.k # "Some" \/ c.aliveAtSend[c.gAtSend.id])
\* no tag attached by another thread
Isolation == \A s \in AllSinks : \A e \in sinks[s] : \A k \in 1..Len(e.tags) : Owner(e.tags[k].v) \in {0, e.t}
\* all tags of the call and of the caller, priority tags first in their fixed order, the rest in the order given
FixedOrder == \A c \in Done : c.ok => IsOrdered(EventOf(c.id).tags, c.call, c.thread)
\* the guard's assertion never fires; at most one guard
GuardMatches == ~panicked /\ guards = (IF g.k = "Some" THEN 1 ELSE 0)
\* the wrapper: level by outcome, status code of the response returned, clean per-thread tag set
WrapperFaithful ==
  \A c \in Done : (c.kind = "wrap" /\ c.ok) =>
     LET e == EventOf(c.id)
         cleanThread == (IF c.w.cleared THEN <<>> ELSE RequestTags(c.w.req)) \o c.w.att \o <<Tag("duration_ms", "*")>>
     IN /\ e.level = (IF c.o.k = "Ok" THEN "info" ELSE "error")
        /\ \E k \in 1..Len(e.tags) : e.tags[k] = Tag("code", WrapResponse(c.o).code)
        /\ e.tags = Compose(WrapCallTags(c.o), cleanThread)
====
