SPECIFICATION Spec
CONSTANTS Max = 2
 Clients = {c1, c2, c3, c4}
 RaceTokenWait = TRUE
INVARIANTS Limit Conservation StopOrder AtMostOneMore
PROPERTY Prompt
CHECK_DEADLOCK FALSE
