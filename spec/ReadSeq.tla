---- MODULE ReadSeq ----
(***************************************************************************)
(* C01 at the level of a connection: several heads follow one another on   *)
(* one stream and are read into ONE fixed buffer (src/request.rs: shift,   *)
(* then src/head.rs: read_http_head's loop).  The buffer is modelled with  *)
(* its indices: `off` consumed bytes still occupy the front until the next *)
(* shift, so only BufSize - off - Len(buf) bytes can be read.              *)
(* ShiftAlways = TRUE is the code (buf.shift() before every head).         *)
(* ShiftAlways = FALSE shifts only when no room is left on entry: TLC then *)
(* finds a head that fits the buffer reported as HeadTooLong, for some     *)
(* partitions of the stream only.                                          *)
(***************************************************************************)
EXTENDS Naturals, Sequences, FiniteSets, TLC
CONSTANTS Heads,        \* set of messages (byte tuples) a stream is made of
          MaxMsgs, BufSize, ShiftAlways
CR == 13
LF == 10
VARIABLES input, stream, buf, off, pc, results
vars == <<input, stream, buf, off, pc, results>>
RECURSIVE Find(_, _)
Find(s, i) == IF i + 3 > Len(s) THEN 0
              ELSE IF s[i] = CR /\ s[i+1] = LF /\ s[i+2] = CR /\ s[i+3] = LF THEN i ELSE Find(s, i + 1)
ParseHead(h) == IF Len(h) > 0 /\ h[1] = 97 THEN "Ok" ELSE "Malformed"
Prefix(s, n) == SubSeq(s, 1, IF n < Len(s) THEN n ELSE Len(s))
\* the whole-input oracle for ONE head with the whole buffer available (ReadHead!Oracle)
Oracle(in) == LET p == Find(Prefix(in, BufSize), 1) IN
              IF p > 0 THEN [k |-> ParseHead(SubSeq(in, 1, p - 1)), used |-> p + 3]
              ELSE IF Len(in) >= BufSize THEN [k |-> "HeadTooLong", used |-> 0]
              ELSE IF Len(in) = 0 THEN [k |-> "Disconnected", used |-> 0]
              ELSE [k |-> "Truncated", used |-> 0]
\* ... applied again and again to what is left: what a connection must report
RECURSIVE SeqOracle(_, _)
SeqOracle(in, acc) == LET o == Oracle(in) IN
                      IF o.k = "Ok" THEN SeqOracle(SubSeq(in, o.used + 1, Len(in)), Append(acc, o.k)) ELSE Append(acc, o.k)
RECURSIVE Concat(_)
Concat(ms) == IF ms = <<>> THEN <<>> ELSE Head(ms) \o Concat(Tail(ms))
Streams == UNION {[1..n -> Heads] : n \in 1..MaxMsgs}
Init == /\ input \in {Concat(ms) : ms \in Streams} /\ stream = input /\ buf = <<>> /\ off = 0 /\ pc = "start"
        /\ results = <<>>
\* read_http_request: make room, then read a head
Start == /\ pc = "start"
         /\ off' = IF ShiftAlways \/ off + Len(buf) = BufSize THEN 0 ELSE off
         /\ pc' = "head" /\ UNCHANGED <<input, stream, buf, results>>
TryParse == /\ pc = "head"
            /\ LET p == Find(buf, 1) IN
               /\ p > 0
               /\ LET k == ParseHead(SubSeq(buf, 1, p - 1)) IN
                  /\ results' = Append(results, k)
                  /\ pc' = IF k = "Ok" THEN "start" ELSE "done"
               /\ buf' = SubSeq(buf, p + 4, Len(buf)) /\ off' = off + p + 3
            /\ UNCHANGED <<input, stream>>
Full == /\ pc = "head" /\ Find(buf, 1) = 0 /\ off + Len(buf) = BufSize
        /\ results' = Append(results, "HeadTooLong") /\ pc' = "done" /\ UNCHANGED <<input, stream, buf, off>>
Read(k) == /\ pc = "head" /\ Find(buf, 1) = 0 /\ off + Len(buf) < BufSize
           /\ k >= 1 /\ k <= Len(stream) /\ k <= BufSize - off - Len(buf)
           /\ buf' = buf \o SubSeq(stream, 1, k) /\ stream' = SubSeq(stream, k + 1, Len(stream))
           /\ UNCHANGED <<input, off, pc, results>>
ReadEof == /\ pc = "head" /\ Find(buf, 1) = 0 /\ off + Len(buf) < BufSize /\ stream = <<>>
           /\ results' = Append(results, IF buf = <<>> THEN "Disconnected" ELSE "Truncated") /\ pc' = "done"
           /\ UNCHANGED <<input, stream, buf, off>>
Next == Start \/ TryParse \/ Full \/ ReadEof \/ \E k \in 1..BufSize : Read(k)
Spec == Init /\ [][Next]_vars /\ WF_vars(Next)
\* every head that fits the buffer is read, however the stream was cut and whatever was consumed before it
SplitIndependence == pc = "done" => results = SeqOracle(input, <<>>)
PrefixAlways == \A i \in 1..Len(results) : i <= Len(SeqOracle(input, <<>>)) /\ results[i] = SeqOracle(input, <<>>)[i]
Terminates == <>(pc = "done")
====
