---- MODULE Response ----
(***************************************************************************)
(* C06 / C08: what write_http_response may put on the wire.                 *)
(* WellFormed is a predicate over the emitted bytes, not a function that    *)
(* produces them, so nothing the property does not promise is pinned        *)
(* (reason-phrase text, position of the automatic fields).  ParseHead is    *)
(* the RFC 7230 response-head grammar, written independently of the code.   *)
(* Bytes are integers; bodies are [len, digest] pairs.                      *)
(***************************************************************************)
EXTENDS Chunked

AllIn(s, S) == \A i \in 1..Len(s) : s[i] \in S
EqNoCase(a, b) == LowerSeq(a) = LowerSeq(b)

\* ---------- RFC 7230 response head, written from the grammar ----------
\* status-line = HTTP-version SP status-code SP reason-phrase ;  reason-phrase = *( HTAB / SP / VCHAR )
StatusLine(line) ==
  IF Len(line) >= 13 /\ Sub(line, 1, 9) = <<72, 84, 84, 80, 47, 49, 46, 49, 32>>
     /\ AllIn(Sub(line, 10, 12), Digit) /\ line[13] = SP /\ AllIn(Sub(line, 14, Len(line)), Vchar \cup {SP, HT})
  THEN [ok |-> TRUE, code |-> (line[10] - 48) * 100 + (line[11] - 48) * 10 + (line[12] - 48)]
  ELSE [ok |-> FALSE, code |-> 0]
\* header-field = field-name ":" OWS field-value OWS
FieldLine(line) ==
  LET c == IndexOf(line, 58) IN
  IF c <= 1 \/ ~AllIn(Sub(line, 1, c-1), Tchar) THEN [ok |-> FALSE, name |-> <<>>, value |-> <<>>]
  ELSE LET v == TrimOws(Sub(line, c+1, Len(line))) IN
       [ok |-> AllIn(v, Vchar \cup {SP, HT}), name |-> Sub(line, 1, c-1), value |-> v]
\* head = the bytes up to and excluding the CRLFCRLF
ParseHead(head) ==
  LET lines == SplitCRLF(head)
      st == StatusLine(lines[1])
      fs == [k \in 1..(Len(lines)-1) |-> FieldLine(lines[k+1])]
  IN [ok |-> st.ok /\ \A k \in 1..Len(fs) : fs[k].ok, code |-> st.code,
      fields |-> [k \in 1..Len(fs) |-> <<fs[k].name, fs[k].value>>]]

\* ---------- decimal and hexadecimal text ----------
Dec(n) == DecOf(n)

\* ---------- what the serialiser owes ----------
S(str) == str   \* (names below are given as byte tuples)
CT == <<99,111,110,116,101,110,116,45,116,121,112,101>>                       \* content-type
CL == <<99,111,110,116,101,110,116,45,108,101,110,103,116,104>>               \* content-length
TE == <<116,114,97,110,115,102,101,114,45,101,110,99,111,100,105,110,103>>   \* transfer-encoding
CONN == <<99,111,110,110,101,99,116,105,111,110>>                             \* connection
CLOSE == <<99,108,111,115,101>>
CHUNKED == <<99,104,117,110,107,101,100>>

HasUser(r, name) == \E i \in 1..Len(r.user) : EqNoCase(r.user[i][1], name)
\* when nothing at all may be written, and with which errors (which one is reported when several apply is free)
RefuseSet(r) ==
  IF r.kind # "Normal" THEN {"UnwritableResponse"}
  ELSE (IF r.ctype # <<>> /\ HasUser(r, CT) THEN {"DuplicateContentTypeHeader"} ELSE {})
       \cup (IF r.body.known /\ HasUser(r, CL) THEN {"DuplicateContentLengthHeader"} ELSE {})
       \cup (IF ~r.body.known /\ HasUser(r, TE) THEN {"DuplicateTransferEncodingHeader"} ELSE {})

\* the automatic fields the rules prescribe (as a set: their position is not promised)
Auto(r, close) ==
  (IF r.ctype # <<>> THEN {<<CT, r.ctype>>} ELSE {})
  \cup (IF close THEN {<<CONN, CLOSE>>} ELSE {})
  \cup (IF r.body.known THEN {<<CL, Dec(r.body.len)>>} ELSE {<<TE, CHUNKED>>})

\* remove the first field equal to f (name compared without case)
RECURSIVE RemoveFirst(_, _)
RemoveFirst(fs, f) ==
  IF fs = <<>> THEN <<>>
  ELSE IF EqNoCase(fs[1][1], f[1]) /\ fs[1][2] = f[2] THEN Tail(fs)
  ELSE <<fs[1]>> \o RemoveFirst(Tail(fs), f)
RECURSIVE RemoveAllOf(_, _)
RemoveAllOf(fs, autos) ==
  IF autos = {} THEN fs
  ELSE LET a == CHOOSE x \in autos : TRUE IN RemoveAllOf(RemoveFirst(fs, a), autos \ {a})
Contains(fs, f) == \E i \in 1..Len(fs) : EqNoCase(fs[i][1], f[1]) /\ fs[i][2] = f[2]

FieldsOk(r, close, fields) ==
  /\ \A a \in Auto(r, close) : Contains(fields, a)
  /\ RemoveAllOf(fields, Auto(r, close)) = r.user                 \* the user's fields, verbatim, in the order added
  \* never both framings, never an automatic field the rules do not prescribe
  /\ ~(r.body.known /\ ~HasUser(r, TE) /\ \E i \in 1..Len(fields) : EqNoCase(fields[i][1], TE))
  /\ ~(~r.body.known /\ ~HasUser(r, CL) /\ \E i \in 1..Len(fields) : EqNoCase(fields[i][1], CL))
  /\ (r.ctype = <<>> /\ ~HasUser(r, CT) => ~\E i \in 1..Len(fields) : EqNoCase(fields[i][1], CT))
  /\ (~close /\ ~HasUser(r, CONN) => ~\E i \in 1..Len(fields) : EqNoCase(fields[i][1], CONN))

\* body as walked by the harness: known length -> [len, digest]; chunked -> chunks [size bytes, len], terminator, decoded [len, digest]
BodyOk(r, w) ==
  IF r.body.known
  THEN w.kind = "plain" /\ w.len = r.body.len /\ w.digest = r.body.digest
  ELSE /\ w.kind = "chunked" /\ Complete(w)
       /\ w.len = r.body.len /\ w.digest = r.body.digest

\* the same response under another writer schedule must give the same bytes
\* the same bytes AND the same result under every writer schedule
ScheduleInsensitive(e) == e.res # "Hang" /\ e.res # "Panic" /\ e.res = e.canonRes /\ e.total = e.canonTotal /\ e.digest = e.canonDigest

(* ---------------- C08: failed writes ---------------- *)
MinN(a, b) == IF a < b THEN a ELSE b
\* serialiser level: the writer fails once k bytes have been accepted
WriteFaultOk(e) == \/ /\ e.gotLen = MinN(e.k, e.canonLen)             \* exactly the bytes accepted ...
                      /\ e.gotDigest = e.prefixDigest                 \* ... and they are a prefix of the one correct serialisation
                      /\ e.res = (IF e.k >= e.canonLen THEN e.canonRes ELSE "Disconnected")
                   \* the writer reported the error once and would have accepted bytes again: an implementation that carries on
                   \* has not failed, provided what is on the wire is the one correct serialisation, no byte twice, none missing
                   \/ /\ e.transient /\ e.res = e.canonRes /\ e.gotLen = e.canonLen /\ e.gotDigest = e.canonDigest
\* body source: file shorter than declared / missing / removed between head and body
BodyFaultOk(e) == /\ e.headOk                                         \* the head went out complete, with the declared length
                  /\ CASE e.what = "short" -> e.bodyLen = e.actual /\ e.bodyDigest = e.wantDigest /\ e.res = "ErrorReadingResponseBody"
                       [] e.what \in {"missing", "removed_after_head"} -> e.bodyLen = 0 /\ e.res = "ErrorReadingFile"
\* connection level: the failed write, then a 500 as handle_http_conn would send
ConnFaultOk(e) ==
  IF e.what \in {"ok", "long"}                                       \* ("long": the body file holds more than was declared)
  THEN e.r1 = "Ok" /\ e.ws1 = "None" /\ e.r2 = "ResponseAlreadySent" /\ e.statusLines = 1 /\ e.firstCode = 200 /\ e.bodyIsPrefix
  ELSE IF e.what = "socket"                                           \* the peer went away while the response was being written
  THEN /\ e.r1 = "Disconnected" /\ e.ws1 = "Shutdown"                 \* bytes were sent: the write side is shut ...
       /\ e.r2 = "Disconnected" /\ e.ws2 = "Shutdown"                 \* ... the 500 that would follow is refused, not attempted ...
       /\ e.r3 = "Disconnected" /\ e.firstCode = 200                  \* ... and no further request is read
  ELSE IF e.what \in {"short", "missing"}
  THEN /\ e.r1 \in {"ErrorReadingResponseBody", "ErrorReadingFile"}
       /\ e.ws1 = "Shutdown"                                          \* bytes were sent: the write side is shut ...
       /\ e.r2 = "Disconnected" /\ e.ws2 = "Shutdown"                 \* ... nothing else can be written ...
       /\ e.statusLines = 1 /\ e.firstCode = e.code /\ e.bodyIsPrefix \* ... in particular no second status line
  ELSE /\ e.r1 = (IF e.what = "dup_header" THEN "DuplicateContentTypeHeader" ELSE "UnwritableResponse")
       /\ e.ws1 = "Response"                                          \* nothing was sent: a response is still owed ...
       /\ e.r2 = "Ok" /\ e.ws2 = "Shutdown"                           \* ... and one well-formed 500 goes out
       /\ e.statusLines = 1 /\ e.firstCode = 500
====
