---- MODULE Trace_Framing ----
(* impl -> spec for C03 / C14 / C15 (request side).                                     *)
(*  Req events of `framing-gen`: one message, judged by Framing!Classify.               *)
(*  Req/Body/Err/Refuse/Eof/End events of `pipeline-gen`: a wire of several messages;    *)
(*  the requests returned must be a prefix of the messages sent (NoSmuggle) and an      *)
(*  invalid or ambiguous message must end the sequence with an error (RejectNotIgnore). *)
EXTENDS Framing, Json, IOUtils, TLCExt, SequencesExt
Rec == ndJsonDeserialize(IOEnv.TRACE)
VARIABLES l, bad, skipping, nvalid, sent, k, phase
tvars == <<l, bad, skipping, nvalid, sent, k, phase>>
E == Rec[l]
TInit == l = 1 /\ bad = {} /\ skipping = FALSE /\ nvalid = 0 /\ sent = <<>> /\ k = 1 /\ phase = "req"
Fail(why) == bad' = bad \cup {<<E.sid, l, why>>} /\ skipping' = TRUE /\ UNCHANGED <<nvalid, sent, k, phase>>
Keep == UNCHANGED <<bad, skipping>>
CkSet(ck) == { <<ck[i][1], ck[i][2]>> : i \in 1..Len(ck) }

\* does the logged request agree with the classification c?  (a sequence of complaint tags, empty = yes)
Mismatch(o, c) ==
     (IF o.body # c.body THEN <<"body">> ELSE <<>>)
  \o (IF c.body = "Known" /\ o.len # c.len THEN <<"len">> ELSE <<>>)
  \o (IF o.chunked # c.chunked \/ o.gzip # c.gzip THEN <<"coding">> ELSE <<>>)
  \o (IF o.expect # c.expect THEN <<"expect">> ELSE <<>>)
  \o (IF o.ctype.v # c.ctype.v \/ o.ctype.raw # c.ctype.raw THEN <<"ctype">> ELSE <<>>)
  \o (IF CkSet(o.cookies) # c.cookies \/ Len(o.cookies) # Cardinality(c.cookies) THEN <<"cookies">> ELSE <<>>)
  \o (IF o.headers # c.headers THEN <<"headers">> ELSE <<>>)

TReset == /\ E.ev = "Reset" /\ skipping' = FALSE /\ k' = 1 /\ phase' = "req"
          /\ sent' = (IF "sent" \in DOMAIN E THEN E.sent ELSE <<>>) /\ UNCHANGED <<bad, nvalid>>

\* ---- single message (framing-gen) ----
TSingle == /\ E.ev = "Req" /\ ~skipping /\ sent = <<>>
           /\ LET c == Classify(E.method, E.fields) o == E.out IN
              IF o.k \in {"Panic", "Hang"} THEN Fail(<<o.k>>)
              ELSE IF c.k = "err"
                   THEN IF (o.k = "err" /\ o.kind \in c.errs)
                           \/ (c.free /\ o.k = "ok" /\ LET c2 == ClassifyLenient(E.method, E.fields) IN c2.k = "ok" /\ Mismatch(o, c2) = <<>>)
                        THEN nvalid' = nvalid + 1 /\ Keep /\ UNCHANGED <<sent, k, phase>>
                        ELSE Fail(<<"RejectNotIgnore", "expected", c.errs, "got", o.k, o.kind>>)
              ELSE IF o.k # "ok" THEN Fail(<<"Rejected valid framing", o.kind>>)
              ELSE IF Mismatch(o, c) # <<>> THEN Fail(<<"Mismatch", Mismatch(o, c)>>)
              ELSE IF o.left # 9 THEN Fail(<<"Consumed past the blank line", o.left>>)
              ELSE nvalid' = nvalid + 1 /\ Keep /\ UNCHANGED <<sent, k, phase>>

\* ---- pipelined wire (pipeline-gen) ----
Cls(i) == Classify(sent[i].method, sent[i].fields)
TPReq == /\ E.ev = "Req" /\ ~skipping /\ sent # <<>>
         /\ IF phase # "req" THEN Fail(<<"Req in phase", phase>>)
            ELSE IF k > Len(sent) THEN Fail(<<"Smuggled: a request beyond the messages sent", E.idx, E.path>>)
            ELSE LET c == Cls(k) IN
              IF E.idx # k THEN Fail(<<"Smuggled: expected message", k, "got", E.idx, E.path>>)
              ELSE IF E.method # sent[k].method THEN Fail(<<"Method differs from the message sent", k, E.method>>)
              ELSE IF c.k = "err" /\ ~c.free THEN Fail(<<"RejectNotIgnore", "expected", c.errs, "accepted as", E.body>>)
              ELSE IF c.k = "err" THEN phase' = "free" /\ Keep /\ UNCHANGED <<nvalid, sent, k>>
              ELSE IF Mismatch(E, c) # <<>> THEN Fail(<<"Mismatch", Mismatch(E, c)>>)
              ELSE /\ phase' = (IF c.chunked \/ c.gzip THEN "refuse" ELSE IF c.body = "Known" THEN "body"
                                ELSE IF c.body = "Unknown" THEN "bodyeof" ELSE "req")
                   /\ k' = (IF c.body = "Empty" /\ ~(c.chunked \/ c.gzip) THEN k + 1 ELSE k)
                   /\ Keep /\ UNCHANGED <<nvalid, sent>>
TPBody == /\ E.ev = "Body" /\ ~skipping
          /\ IF phase = "free" THEN UNCHANGED <<bad, skipping, nvalid, sent, k, phase>>
             ELSE IF phase = "body"
             THEN IF E.len = sent[k].blen /\ E.dig = sent[k].bdig THEN phase' = "req" /\ k' = k + 1 /\ Keep /\ UNCHANGED <<nvalid, sent>>
                  ELSE Fail(<<"Body differs from the bytes sent", E.len, sent[k].blen>>)
             ELSE IF phase = "bodyeof"
             THEN IF E.len = sent[k].restlen /\ E.dig = sent[k].restdig THEN phase' = "end" /\ Keep /\ UNCHANGED <<nvalid, sent, k>>
                  ELSE Fail(<<"Unknown-length body is not the rest of the stream", E.len, sent[k].restlen>>)
             ELSE Fail(<<"Body in phase", phase>>)
TPErr == /\ E.ev = "Err" /\ ~skipping
         /\ IF phase = "free" THEN UNCHANGED <<bad, skipping, nvalid, sent, k, phase>>
            ELSE IF E.kind \in {"Panic", "Hang"} THEN Fail(<<E.kind>>)
            ELSE IF phase # "req" THEN Fail(<<"Error in phase", phase, E.kind>>)
            ELSE IF k > Len(sent)
                 THEN IF E.kind = "Disconnected" THEN phase' = "end" /\ Keep /\ UNCHANGED <<nvalid, sent, k>>
                      ELSE Fail(<<"after the last message expected Disconnected, got", E.kind>>)
            ELSE LET c == Cls(k) IN
                 IF c.k = "err" /\ E.kind \in c.errs THEN phase' = "end" /\ Keep /\ UNCHANGED <<nvalid, sent, k>>
                 ELSE Fail(<<"message", k, "classified", c.k, "but reading gave", E.kind>>)
TPRefuse == /\ E.ev \in {"Refuse", "Eof"} /\ ~skipping
            /\ IF phase \in {"refuse", "end", "free"} THEN phase' = (IF phase = "free" THEN "free" ELSE "end") /\ Keep /\ UNCHANGED <<nvalid, sent, k>>
               ELSE Fail(<<E.ev, "in phase", phase>>)
TPEnd == /\ E.ev = "End" /\ ~skipping
         /\ IF phase \in {"end", "free"} THEN nvalid' = nvalid + 1 /\ Keep /\ UNCHANGED <<sent, k, phase>>
            ELSE Fail(<<"End in phase", phase>>)
TSkip == E.ev # "Reset" /\ skipping /\ UNCHANGED <<bad, skipping, nvalid, sent, k, phase>>
TNext == l <= Len(Rec) /\ l' = l + 1 /\ (TReset \/ TSingle \/ TPReq \/ TPBody \/ TPErr \/ TPRefuse \/ TPEnd \/ TSkip)
TSpec == TInit /\ [][TNext]_tvars
Report == IF l = Len(Rec) + 1
          THEN JsonSerialize(IOEnv.REPORT, [nvalid |-> nvalid, bad |-> SetToSeq(bad), events |-> Len(Rec)])
          ELSE TRUE
====
