---- MODULE Trace_RecvBody ----
(* impl -> spec for the recv_body helper (an anchor of C09): every recorded call is judged by Exchange!RecvBody. *)
EXTENDS Exchange, Json, IOUtils, TLCExt, SequencesExt
Rec == ndJsonDeserialize(IOEnv.TRACE)
VARIABLES l, bad, nvalid
E == Rec[l]
TInit == l = 1 /\ bad = {} /\ nvalid = 0
TNext == /\ l <= Len(Rec) /\ l' = l + 1
         /\ IF E.ev # "RecvBody" THEN UNCHANGED <<bad, nvalid>>
            ELSE LET x == RecvBody([state |-> E.state, known |-> E.known, L |-> E.L], E.M) IN
                 IF E.panic THEN bad' = bad \cup {<<E.sid, l, <<"Panic">> >>} /\ nvalid' = nvalid
                 ELSE IF E.out = x THEN nvalid' = nvalid + 1 /\ bad' = bad
                 ELSE bad' = bad \cup {<<E.sid, l, <<"recv_body", E.state, E.known, E.L, E.M, "expected", x, "got", E.out>> >>} /\ nvalid' = nvalid
TSpec == TInit /\ [][TNext]_<<l, bad, nvalid>>
Report == IF l = Len(Rec) + 1
          THEN JsonSerialize(IOEnv.REPORT, [nvalid |-> nvalid, bad |-> SetToSeq(bad), events |-> Len(Rec)])
          ELSE TRUE
====
