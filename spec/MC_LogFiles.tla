---- MODULE MC_LogFiles ----
(***************************************************************************)
(* The log writer as a machine: every file-system operation of the writer  *)
(* thread is one step, the environment ticks the clock, stops and restarts *)
(* the writer and leaves files of earlier runs in the directory.  TLC      *)
(* checks C19's clauses in every state and that the small steps compose to *)
(* the big-step operators LoopW / StartW that trace validation uses.       *)
(***************************************************************************)
EXTENDS LogFiles, SequencesExt

CONSTANTS
  MaxWrite,      \* max_write_bytes
  Keep,          \* max_keep_bytes
  KeepAge,       \* max_keep_age in clock units; 0 = None
  MaxWriteAge,   \* max_write_age in clock units
  Sizes,         \* serialised sizes an event may have
  StartSize,     \* size of the "Starting log writer" line
  MaxEvents, MaxNow, MaxRestarts,
  ForeignLens,   \* lengths of files something else may leave behind while the writer is down
  ForeignAges,   \* how old such a file's mtime may be
  MaxForeign,
  TiesPossible   \* TRUE: files with the same mtime are scanned in any order (coarse file-system clock)

VARIABLES s, pc, now, up, pend, s0, events, restarts, since, foreign
vars == <<s, pc, now, up, pend, s0, events, restarts, since, foreign>>

Big == LET m == Sizes \cup {StartSize} IN CHOOSE x \in m : \A y \in m : y <= x
NoPend == [kind |-> "none", size |-> 0, now |-> 0, byAge |-> FALSE, order |-> <<>>]

Init == /\ s = Fresh(<<>>, 1, MaxWrite, Keep, KeepAge) /\ pc = "idle" /\ now = 10 /\ up = FALSE /\ pend = NoPend /\ s0 = Fresh(<<>>, 1, MaxWrite, Keep, KeepAge)
        /\ events = 0 /\ restarts = 0 /\ since = 0 /\ foreign = 0

Tick == now < MaxNow /\ now' = now + 1 /\ UNCHANGED <<s, pc, up, pend, s0, events, restarts, since, foreign>>

\* ---- environment while the writer is down
AddForeign == /\ ~up /\ foreign < MaxForeign
              /\ \E len \in ForeignLens, age \in ForeignAges :
                   s' = [s EXCEPT !.files = Append(@, File(s.nextId, len, now - age, 1, 0, 0, FALSE)), !.nextId = @ + 1]
              /\ foreign' = foreign + 1 /\ UNCHANGED <<pc, now, up, pend, s0, events, restarts, since>>

\* the orders in which the heap can pop the scanned files: by mtime; files with equal mtime by creation order,
\* or (TiesPossible) in any order
SortedOrders(fs) ==
  IF ~TiesPossible
  THEN {SortSeq(fs, LAMBDA a, b : a.mt < b.mt \/ (a.mt = b.mt /\ a.id < b.id))}
  ELSE {p \in {[i \in 1..Len(fs) |-> fs[q[i]]] : q \in Permutations(1..Len(fs))} :
          \A i \in 1..(Len(p) - 1) : p[i].mt <= p[i + 1].mt}

\* ---- start-up: scan, trim to the keep size (one file per step), create the first file
StartScan == /\ ~up /\ restarts < MaxRestarts /\ pc = "idle"
             /\ \E order \in SortedOrders(s.files) :
                  /\ s' = ScanW(s, order)
                  /\ pend' = [NoPend EXCEPT !.kind = "start", !.now = now, !.order = order]
             /\ s0' = s /\ up' = TRUE /\ pc' = "trim0" /\ restarts' = restarts + 1 /\ since' = 0
             /\ UNCHANGED <<now, events, foreign>>
StepTrim0 == /\ pc = "trim0"
             /\ IF s.total > Keep
                THEN IF s.known = <<>> THEN s' = [s EXCEPT !.crashed = TRUE] /\ pc' = "dead"
                     ELSE s' = DeleteOldestW(s) /\ pc' = (IF s'.crashed THEN "dead" ELSE "trim0")
                ELSE s' = s /\ pc' = "create"
             /\ UNCHANGED <<now, up, pend, s0, events, restarts, since, foreign>>
StepCreate == /\ pc = "create" /\ s' = CreateW(s, pend.now, StartSize) /\ pc' = "idle"
              /\ UNCHANGED <<now, up, pend, s0, events, restarts, since, foreign>>

\* ---- one event = one iteration of the writer loop
BeginEvent == /\ up /\ pc = "idle" /\ events < MaxEvents
              /\ \E size \in Sizes :
                   pend' = [NoPend EXCEPT !.kind = "event", !.size = size, !.now = now,
                                          !.byAge = (now - s.curCreated > MaxWriteAge)]
              /\ s0' = s /\ pc' = "rot" /\ UNCHANGED <<s, now, up, events, restarts, since, foreign>>
StepRotate == /\ pc = "rot" /\ s' = RotateW(s, pend.size, pend.now, pend.byAge) /\ pc' = "age"
              /\ UNCHANGED <<now, up, pend, s0, events, restarts, since, foreign>>
StepAge == /\ pc = "age"
           /\ IF AgeDue(s, pend.now) THEN s' = DeleteOldestW(s) /\ pc' = (IF s'.crashed THEN "dead" ELSE "age")
              ELSE s' = s /\ pc' = "size"
           /\ UNCHANGED <<now, up, pend, s0, events, restarts, since, foreign>>
StepSize == /\ pc = "size"
            /\ IF BudgetUnderflows(s, pend.size) THEN s' = [s EXCEPT !.crashed = TRUE] /\ pc' = "dead"
               ELSE IF s.total > Budget(s, pend.size)
               THEN IF s.known = <<>> THEN s' = [s EXCEPT !.crashed = TRUE] /\ pc' = "dead"
                    ELSE s' = DeleteOldestW(s) /\ pc' = (IF s'.crashed THEN "dead" ELSE "size")
               ELSE s' = s /\ pc' = "app"
            /\ UNCHANGED <<now, up, pend, s0, events, restarts, since, foreign>>
StepAppend == /\ pc = "app" /\ s' = AppendW(s, pend.size, pend.now) /\ pc' = "idle"
              /\ events' = events + 1 /\ since' = since + 1
              /\ UNCHANGED <<now, up, pend, s0, restarts, foreign>>

\* ---- graceful stop (the sender is dropped; the thread drains and ends), or the thread is dead
Stop == /\ up /\ pc \in {"idle", "dead"} /\ up' = FALSE /\ pc' = "idle"
        /\ UNCHANGED <<s, now, pend, s0, events, restarts, since, foreign>>

Next == Tick \/ AddForeign \/ StartScan \/ StepTrim0 \/ StepCreate \/ BeginEvent \/ StepRotate \/ StepAge
        \/ StepSize \/ StepAppend \/ Stop
Spec == Init /\ [][Next]_vars

\* ---------------------------------------------------------------- properties (C19)
Running == {"idle", "rot", "age", "size", "app"}
\* at every moment the files with the prefix -- earlier runs' included -- exceed keep by at most one event
TotalBound == (up /\ pc \in Running) => DiskBytes(s) <= Keep + Big
PerFileBound == PerFileS(s)
Contiguous == ContiguousS(s)
Bookkeeping == (up /\ pc \in Running) => BookkeepingS(s)
KnownSorted == KnownSortedS(s)
KeepsRunning == ~s.crashed
\* after each event no closed file is older than the keep age
AgeBound == (up /\ pc = "idle" /\ KeepAge > 0 /\ since > 0) =>
              \A i \in 1..Len(s.known) : s.known[i].kmt >= pend.now - KeepAge
\* the small steps compose to the big-step operators used by trace validation
BigStepAgrees ==
  (up /\ pc = "idle") =>
     CASE pend.kind = "event" -> s = LoopW(s0, pend.size, pend.now, pend.byAge)
       [] pend.kind = "start" -> s = StartW(s0, pend.order, pend.now, StartSize)
       [] OTHER -> TRUE
\* a deletion always removes the file the set believes to be the oldest
OldestFirst == [][Len(s'.files) < Len(s.files) =>
                    /\ s.known # <<>>
                    /\ ~HasFile(s', Head(s.known).id)
                    /\ \A i \in 1..Len(s.known) : Head(s.known).kmt <= s.known[i].kmt]_vars
\* nothing this log wrote is deleted while an older file of this log survives
SuffixOnly == [][\A i \in 1..Len(s.files) : (s.files[i].own /\ ~HasFile(s', s.files[i].id)) =>
                    \A j \in 1..Len(s.files) : (s.files[j].own /\ s.files[j].id < s.files[i].id) => ~HasFile(s', s.files[j].id)]_vars
====
