SPECIFICATION TSpec
INVARIANTS Report
CHECK_DEADLOCK FALSE
