---- MODULE Bytes ----
(***************************************************************************)
(* Shared byte-level vocabulary.  Text crosses into TLA+ as tuples of       *)
(* integers (bytes 0..255 or Unicode scalar values); numbers that may       *)
(* exceed 2^31 are tuples of decimal digits (DESIGN.md section 3).          *)
(***************************************************************************)
EXTENDS Naturals, Sequences, FiniteSets

CR == 13
LF == 10
SP == 32
HT == 9
Digit == 48..57
Alpha == (65..90) \cup (97..122)
HexDig == Digit \cup (65..70) \cup (97..102)
\* tchar = "!" / "#" / "$" / "%" / "&" / "'" / "*" / "+" / "-" / "." / "^" / "_" / "`" / "|" / "~" / DIGIT / ALPHA
Tchar == {33, 35, 36, 37, 38, 39, 42, 43, 45, 46, 94, 95, 96, 124, 126} \cup Digit \cup Alpha
Vchar == 33..126
Ows == {SP, HT}
IsToken(s) == s # <<>> /\ \A i \in 1..Len(s) : s[i] \in Tchar

Lower(b) == IF b \in 65..90 THEN b + 32 ELSE b
LowerSeq(s) == [i \in 1..Len(s) |-> Lower(s[i])]
Sub(s, a, b) == SubSeq(s, a, b)

\* TLC evaluates operator arguments and LET definitions lazily and may re-evaluate them at every
\* use.  Force(F, a) evaluates `a` once, binds the value, and applies F to it.
Force(F(_), a) == CHOOSE r \in {F(x) : x \in {a}} : TRUE

\* Deep recursion is quadratic in TLC (variable look-up walks the context chain), so scanning
\* operators are written with set comprehensions instead of recursion over the index.
\* the indices i in 1..n satisfying P, ascending (SelectSeq is evaluated natively)
IndicesWhere(n, P(_)) == SelectSeq([i \in 1..n |-> i], P)
\* s cut at the separators of width w that start at the ascending positions q (separators must not overlap)
SplitAtSorted(s, q, w) == [k \in 1..(Len(q) + 1) |-> SubSeq(s, IF k = 1 THEN 1 ELSE q[k-1] + w, IF k = Len(q) + 1 THEN Len(s) ELSE q[k] - 1)]
SplitAt(s, qexpr, w) == Force(LAMBDA q : SplitAtSorted(s, q, w), qexpr)
Split(s, b) == SplitAt(s, IndicesWhere(Len(s), LAMBDA i : s[i] = b), 1)
\* lines of s separated by CRLF (CRLF cannot overlap itself)
SplitCRLF(s) == SplitAt(s, IndicesWhere(Len(s) - 1, LAMBDA i : s[i] = CR /\ s[i+1] = LF), 2)
\* position of the first CRLFCRLF in s, 0 if none
MinOf(P) == CHOOSE x \in P : \A y \in P : x <= y
FindCrlfCrlf(s) == LET P == {i \in 1..(Len(s) - 3) : s[i] = CR /\ s[i+1] = LF /\ s[i+2] = CR /\ s[i+3] = LF}
                   IN IF P = {} THEN 0 ELSE MinOf(P)

IsBlank(b) == b \in {SP, HT, 10, 11, 12, 13}          \* what Rust str::trim strips within ASCII
RECURSIVE LTrimBy(_, _)
LTrimBy(s, S) == IF s # <<>> /\ s[1] \in S THEN LTrimBy(Tail(s), S) ELSE s
RECURSIVE RTrimBy(_, _)
RTrimBy(s, S) == IF s # <<>> /\ s[Len(s)] \in S THEN RTrimBy(Sub(s, 1, Len(s)-1), S) ELSE s
TrimBy(s, S) == RTrimBy(LTrimBy(s, S), S)
Trim(s) == TrimBy(s, {SP, HT, 10, 11, 12, 13})
TrimOws(s) == TrimBy(s, Ows)
\* index of the first occurrence of b in s, 0 if none
IndexOf(s, b) == IF \E i \in 1..Len(s) : s[i] = b THEN CHOOSE i \in 1..Len(s) : s[i] = b /\ \A j \in 1..(i-1) : s[j] # b ELSE 0
StartsWith(s, p) == Len(s) >= Len(p) /\ Sub(s, 1, Len(p)) = p

\* ---- decimal numbers as digit tuples (ASCII codes 48..57) ----
IsDigits(v) == v # <<>> /\ \A i \in 1..Len(v) : v[i] \in Digit
RECURSIVE StripZeros(_)
StripZeros(d) == IF Len(d) > 1 /\ d[1] = 48 THEN StripZeros(Tail(d)) ELSE d
RECURSIVE LexLeq(_, _)
LexLeq(a, b) == IF a = <<>> THEN TRUE ELSE IF a[1] < b[1] THEN TRUE ELSE IF a[1] > b[1] THEN FALSE ELSE LexLeq(Tail(a), Tail(b))
DecLeq(a, b) == LET x == StripZeros(a) y == StripZeros(b) IN Len(x) < Len(y) \/ (Len(x) = Len(y) /\ LexLeq(x, y))
DecEq(a, b) == StripZeros(a) = StripZeros(b)
DecLt(a, b) == DecLeq(a, b) /\ ~DecEq(a, b)
U64Max == <<49,56,52,52,54,55,52,52,48,55,51,55,48,57,53,53,49,54,49,53>>   \* 18446744073709551615
\* decimal text of a small natural
RECURSIVE DecOf(_)
DecOf(n) == IF n < 10 THEN <<48 + n>> ELSE Append(DecOf(n \div 10), 48 + (n % 10))
====
