---- MODULE Bytes ----
(***************************************************************************)
(* Shared byte-level vocabulary.  Text crosses into TLA+ as tuples of       *)
(* integers (bytes 0..255 or Unicode scalar values); numbers that may       *)
(* exceed 2^31 are tuples of decimal digits (DESIGN.md section 3).          *)
(***************************************************************************)
EXTENDS Naturals, Sequences, FiniteSets

CR == 13
LF == 10
SP == 32
HT == 9
Digit == 48..57
Alpha == (65..90) \cup (97..122)
HexDig == Digit \cup (65..70) \cup (97..102)
\* tchar = "!" / "#" / "$" / "%" / "&" / "'" / "*" / "+" / "-" / "." / "^" / "_" / "`" / "|" / "~" / DIGIT / ALPHA
Tchar == {33, 35, 36, 37, 38, 39, 42, 43, 45, 46, 94, 95, 96, 124, 126} \cup Digit \cup Alpha
Vchar == 33..126
Ows == {SP, HT}
IsToken(s) == s # <<>> /\ \A i \in 1..Len(s) : s[i] \in Tchar

Lower(b) == IF b \in 65..90 THEN b + 32 ELSE b
LowerSeq(s) == [i \in 1..Len(s) |-> Lower(s[i])]
Sub(s, a, b) == SubSeq(s, a, b)

RECURSIVE SplitOn(_, _, _, _)
SplitOn(s, b, i, start) ==
  IF i > Len(s) THEN <<Sub(s, start, Len(s))>>
  ELSE IF s[i] = b THEN <<Sub(s, start, i-1)>> \o SplitOn(s, b, i+1, i+1)
  ELSE SplitOn(s, b, i+1, start)
Split(s, b) == SplitOn(s, b, 1, 1)

IsBlank(b) == b \in {SP, HT, 10, 11, 12, 13}          \* what Rust str::trim strips within ASCII
RECURSIVE LTrimBy(_, _)
LTrimBy(s, S) == IF s # <<>> /\ s[1] \in S THEN LTrimBy(Tail(s), S) ELSE s
RECURSIVE RTrimBy(_, _)
RTrimBy(s, S) == IF s # <<>> /\ s[Len(s)] \in S THEN RTrimBy(Sub(s, 1, Len(s)-1), S) ELSE s
TrimBy(s, S) == RTrimBy(LTrimBy(s, S), S)
Trim(s) == TrimBy(s, {SP, HT, 10, 11, 12, 13})
TrimOws(s) == TrimBy(s, Ows)
\* index of the first occurrence of b in s, 0 if none
IndexOf(s, b) == IF \E i \in 1..Len(s) : s[i] = b THEN CHOOSE i \in 1..Len(s) : s[i] = b /\ \A j \in 1..(i-1) : s[j] # b ELSE 0
StartsWith(s, p) == Len(s) >= Len(p) /\ Sub(s, 1, Len(p)) = p

\* ---- decimal numbers as digit tuples (ASCII codes 48..57) ----
IsDigits(v) == v # <<>> /\ \A i \in 1..Len(v) : v[i] \in Digit
RECURSIVE StripZeros(_)
StripZeros(d) == IF Len(d) > 1 /\ d[1] = 48 THEN StripZeros(Tail(d)) ELSE d
RECURSIVE LexLeq(_, _)
LexLeq(a, b) == IF a = <<>> THEN TRUE ELSE IF a[1] < b[1] THEN TRUE ELSE IF a[1] > b[1] THEN FALSE ELSE LexLeq(Tail(a), Tail(b))
DecLeq(a, b) == LET x == StripZeros(a) y == StripZeros(b) IN Len(x) < Len(y) \/ (Len(x) = Len(y) /\ LexLeq(x, y))
DecEq(a, b) == StripZeros(a) = StripZeros(b)
DecLt(a, b) == DecLeq(a, b) /\ ~DecEq(a, b)
U64Max == <<49,56,52,52,54,55,52,52,48,55,51,55,48,57,53,53,49,54,49,53>>   \* 18446744073709551615
\* decimal text of a small natural
RECURSIVE DecOf(_)
DecOf(n) == IF n < 10 THEN <<48 + n>> ELSE Append(DecOf(n \div 10), 48 + (n % 10))
====
