---- MODULE Trace_Conn ----
(***************************************************************************)
(* Trace specification for Conn (impl -> spec), "total form": a recorded   *)
(* call that the specification does not explain is collected in `bad` and   *)
(* the rest of that scenario is skipped, so one TLC run reports every       *)
(* failing scenario.  Conn's own invariants and action properties stay      *)
(* switched on while traces are validated.                                  *)
(***************************************************************************)
EXTENDS Conn, Json, IOUtils, TLCExt, SequencesExt
Rec == ndJsonDeserialize(IOEnv.TRACE)
VARIABLES l, bad, skipping, nvalid
tvars == <<vars, l, bad, skipping, nvalid>>
InitLast == [res |-> "init", out |-> <<>>, prews |-> "None"]
TInit == /\ l = 1 /\ bad = {} /\ skipping = FALSE /\ nvalid = 0
         /\ st = St(HeadSt, "None", <<>>) /\ wire = <<>> /\ last = InitLast /\ nreq = 0
E == Rec[l]
Fail(why) == /\ bad' = bad \cup {<<E.sid, l, why>>} /\ skipping' = TRUE /\ UNCHANGED <<st, wire, last, nreq, nvalid>>
TReset == /\ E.ev = "Reset"
          /\ st' = St(HeadSt, "None", E.inq) /\ wire' = <<>> /\ last' = InitLast /\ nreq' = 0
          /\ skipping' = FALSE /\ UNCHANGED <<bad, nvalid>>
TCall == /\ E.ev = "Call" /\ ~skipping
         /\ LET r == Step(st, E) IN
            IF r.res = E.res /\ r.st.rs = E.rs /\ r.st.ws = E.ws /\ Ready(r.st) = E.ready
            THEN /\ st' = r.st /\ wire' = wire \o r.out /\ last' = [res |-> r.res, out |-> r.out, prews |-> st.ws]
                 /\ nreq' = IF Owes(E, r) THEN nreq + 1 ELSE nreq
                 /\ UNCHANGED <<bad, skipping, nvalid>>
            ELSE Fail(<<"Call", E.op, "expected", r.res, r.st.rs.k, r.st.ws, "got", E.res, E.rs.k, E.ws>>)
TDrain == /\ E.ev = "Drain" /\ ~skipping
          /\ IF E.wire = wire THEN nvalid' = nvalid + 1 /\ UNCHANGED <<bad, skipping, st, wire, last, nreq>>
             ELSE Fail(<<"Wire", "expected", wire, "got", E.wire>>)
TSkip == E.ev # "Reset" /\ skipping /\ UNCHANGED <<vars, bad, skipping, nvalid>>
TNext == l <= Len(Rec) /\ l' = l + 1 /\ (TReset \/ TCall \/ TDrain \/ TSkip)
TSpec == TInit /\ [][TNext]_tvars
Report == IF l = Len(Rec) + 1
          THEN JsonSerialize(IOEnv.REPORT, [nvalid |-> nvalid, bad |-> SetToSeq(bad), events |-> Len(Rec)])
          ELSE TRUE
====
