---- MODULE Trace_Sse ----
(***************************************************************************)
(* impl -> spec / spec -> impl for C11.                                      *)
(*  Replay : one TLC-generated behaviour of Sse (sender steps and writer      *)
(*           polls) executed on the real event stream + serialiser; the       *)
(*           observed handle states, delivered events and terminator must be  *)
(*           what TLC computed for that behaviour.                            *)
(*  Block  : one event's encoding, read back by the WHATWG parser.            *)
(*  Threads: a multi-threaded run through the full server: per sender thread   *)
(*           the delivered events are exactly the accepted ones, in order.     *)
(***************************************************************************)
EXTENDS SseParse, Json, IOUtils, TLCExt
Rec == ndJsonDeserialize(IOEnv.TRACE)
VARIABLES l, bad, nvalid
E == Rec[l]
ReplayWhy(e) == IF e.got = e.exp THEN <<>> ELSE <<"Replay", "expected", e.exp, "got", e.got>>
\* e.sends[t] = <<[i, accepted]...>> in sending order; e.recv = <<[t, i]...>> in arrival order
ThreadsWhy(e) ==
  LET T == 1..Len(e.sends)
      acc(t) == SelectSeq(e.sends[t], LAMBDA x : x.accepted)
      got(t) == SelectSeq(e.recv, LAMBDA x : x.t = t)
  IN IF \E t \in T : [k \in 1..Len(got(t)) |-> got(t)[k].i] # [k \in 1..Len(acc(t)) |-> acc(t)[k].i]
     THEN <<"per-thread delivery differs from the accepted sends">>
     ELSE IF ~e.term THEN <<"no terminating chunk after all senders were dropped">>
     ELSE IF e.termEarly THEN <<"terminating chunk while a sender was still connected">>
     ELSE <<>>
Why(e) == CASE e.ev = "Replay" -> ReplayWhy(e)
            [] e.ev = "Block" -> BlockWhy(e) \o (IF BlankLineOk(e.block) \/ e.block = <<>> THEN <<>> ELSE <<"NoBlankLine">>)
            \* an event is refused by the encoder exactly when its encoding does not fit the 65 528-byte buffer
            [] e.ev = "TooBig" -> IF e.encLen > 65528 THEN <<>> ELSE <<"RefusedAlthoughItFits", e.encLen>>
            [] e.ev = "Threads" -> ThreadsWhy(e)
            [] OTHER -> <<>>
TInit == l = 1 /\ bad = {} /\ nvalid = 0
TNext == /\ l <= Len(Rec) /\ l' = l + 1
         /\ IF E.ev = "Reset" THEN UNCHANGED <<bad, nvalid>>
            ELSE LET w == Why(E) IN
                 IF w = <<>> THEN nvalid' = nvalid + 1 /\ bad' = bad
                 ELSE bad' = bad \cup {<<E.sid, l, w>>} /\ nvalid' = nvalid
TSpec == TInit /\ [][TNext]_<<l, bad, nvalid>>
Report == IF l = Len(Rec) + 1
          THEN JsonSerialize(IOEnv.REPORT, [nvalid |-> nvalid, bad |-> SetToSeq(bad), events |-> Len(Rec)])
          ELSE TRUE
====
