SPECIFICATION Spec
CONSTANTS
  T = {1, 2}
  L = {1, 2}
  MaxOps = 2
  EnableTags = TRUE
  EnableRouting = TRUE
  EnableWrap = TRUE
INVARIANTS ExactlyOnce Routed StoppedIsError Isolation FixedOrder GuardMatches WrapperFaithful
CHECK_DEADLOCK FALSE
