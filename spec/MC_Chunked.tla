---- MODULE MC_Chunked ----
(***************************************************************************)
(* The chunked encoder as a machine (copy_chunked_async): the source         *)
(* delivers pieces, the encoder reads at most Cap bytes at a time and writes *)
(* one chunk per read; the source may fail instead of ending, the writer may *)
(* fail at any segment.  TLC checks that a completed output decodes to the   *)
(* source and that a failed one can never be mistaken for a complete body.   *)
(***************************************************************************)
EXTENDS Chunked
CONSTANTS MaxPiece, Cap, MaxPieces
VARIABLES src, srcFault, out, pc, delivered
mvars == <<src, srcFault, out, pc, delivered>>
RECURSIVE Pieces(_)
Pieces(n) == IF n = 0 THEN {<<>>} ELSE LET P == Pieces(n - 1) IN P \cup {Append(p, k) : p \in {q \in P : Len(q) = n - 1}, k \in 1..MaxPiece}
MInit == src \in Pieces(MaxPieces) /\ srcFault \in BOOLEAN /\ out = <<>> /\ pc = "run" /\ delivered = <<>>
Chunk(n) == [t |-> "chunk", size |-> Hex(n), len |-> n, crlf |-> TRUE]
LastChunk == [t |-> "last", size |-> <<48>>, len |-> 0, crlf |-> TRUE]
\* what is left on the wire when the writer fails inside a chunk: k of its parts (size line, CRLF, data, CRLF)
Partial(n, k) == [t |-> "partial", size |-> Hex(n), len |-> n, crlf |-> FALSE, parts |-> k]
EncRead == /\ pc = "run" /\ src # <<>>
           /\ LET n == IF src[1] > Cap THEN Cap ELSE src[1] IN
              /\ src' = (IF src[1] > Cap THEN <<src[1] - Cap>> \o Tail(src) ELSE Tail(src))
              /\ delivered' = Append(delivered, n)
              /\ \/ out' = Append(out, Chunk(n)) /\ pc' = "run"
                 \/ \E k \in 0..3 : out' = (IF k = 0 THEN out ELSE Append(out, Partial(n, k))) /\ pc' = "werr"
           /\ UNCHANGED srcFault
EncEof == /\ pc = "run" /\ src = <<>> /\ ~srcFault
          /\ \/ out' = Append(out, LastChunk) /\ pc' = "done"
             \/ out' = out /\ pc' = "werr"
             \/ out' = Append(out, Partial(0, 1)) /\ pc' = "werr"       \* "0\r\n" without the final CRLF
          /\ UNCHANGED <<src, srcFault, delivered>>
EncSrcErr == pc = "run" /\ src = <<>> /\ srcFault /\ pc' = "rerr" /\ UNCHANGED <<src, srcFault, out, delivered>>
MNext == EncRead \/ EncEof \/ EncSrcErr
MSpec == MInit /\ [][MNext]_mvars /\ WF_mvars(MNext)

\* RFC 7230 4.1 decoder over the segments
DecComplete(o) == /\ o # <<>> /\ o[Len(o)].t = "last"
                  /\ \A i \in 1..(Len(o) - 1) : o[i].t = "chunk" /\ o[i].len > 0 /\ ParseHex(o[i].size) = o[i].len /\ o[i].crlf
DecLens(o) == [i \in 1..(Len(o) - 1) |-> o[i].len]
RECURSIVE Sum(_)
Sum(s) == IF s = <<>> THEN 0 ELSE s[1] + Sum(Tail(s))
Decodes == pc = "done" => DecComplete(out) /\ DecLens(out) = delivered
NoEarlyZero == \A i \in 1..Len(out) : (out[i].t = "chunk" => out[i].len > 0) /\ (out[i].t = "last" => i = Len(out))
ErrorLeavesNoTerminator == pc \in {"rerr", "werr"} => ~DecComplete(out)
NoLeadingZero == \A i \in 1..Len(out) : out[i].t = "chunk" => out[i].size[1] # 48
Terminates == <>(pc # "run")
\* the size-line text for every length the encoder can read at once
HexRoundTrip == \A n \in 1..65528 : ParseHex(Hex(n)) = n /\ Hex(n)[1] # 48 /\ Len(Hex(n)) <= 4
ASSUME HexRoundTrip
====
