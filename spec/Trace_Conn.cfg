SPECIFICATION TSpec
CONSTANTS Scripts = {}
 Ops = {}
INVARIANTS FiveXXCloses FiveXXLast NoSecondFinal Report
PROPERTIES SilentAfterShutdown MisuseIsInert OnlyWhenOwed InterimKeepsOwed FinalDischarges AutoContinueBeforeBody
CHECK_DEADLOCK FALSE
