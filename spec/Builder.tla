---- MODULE Builder ----
(***************************************************************************)
(* The response builder: what the constructors and the `with_*` methods of  *)
(* `Response` produce, as a fold of operations over a record                 *)
(*   [code, ctype, hdrs, body]                                               *)
(* (hdrs: the user fields in the order they were added; ctype: the text of   *)
(* the content type, "" for none; body: the text of an in-memory body).      *)
(* `Response.tla` then says how such a record is put on the wire (C06), and  *)
(* `Status.tla` what the status-named constructors promise (C20): this       *)
(* module is the part in between, which no listed property states in full.   *)
(* Only the status code of a status-named constructor is a listed promise    *)
(* (C20); every other line here is specification beyond the list, and the    *)
(* pipeline reports a discrepancy there as a note, not as a violation.       *)
(***************************************************************************)
EXTENDS Sequences, Naturals, TLC

\* ContentType::as_str
CTText == [ Css |-> "text/css; charset=UTF-8", Csv |-> "text/csv; charset=UTF-8", EventStream |-> "text/event-stream",
            FormUrlEncoded |-> "application/x-www-form-urlencoded; charset=UTF-8", Gif |-> "image/gif",
            Html |-> "text/html; charset=UTF-8", JavaScript |-> "text/javascript; charset=UTF-8", Jpeg |-> "image/jpeg",
            Json |-> "application/json; charset=UTF-8", Markdown |-> "text/markdown; charset=UTF-8",
            MultipartForm |-> "multipart/form-data", None |-> "", OctetStream |-> "application/octet-stream",
            Pdf |-> "application/pdf", PlainText |-> "text/plain; charset=UTF-8", Png |-> "image/png",
            Svg |-> "image/svg+xml; charset=UTF-8" ]
Named == DOMAIN CTText

New(c) == [code |-> c, ctype |-> "", hdrs |-> <<>>, body |-> ""]
MkText(c, b) == [New(c) EXCEPT !.ctype = CTText.PlainText, !.body = b]
MkHtml(c, b) == [New(c) EXCEPT !.ctype = CTText.Html, !.body = b]
WithHeader(r, n, v) == [r EXCEPT !.hdrs = Append(@, <<n, v>>)]

RECURSIVE JoinComma(_)
JoinComma(s) == IF s = <<>> THEN "" ELSE IF Len(s) = 1 THEN s[1] ELSE s[1] \o "," \o JoinComma(Tail(s))

\* the status-named constructors (the code is what C20 promises; the rest is what the source does today)
Ctor(op) ==
  CASE op.op = "ok_200" -> New(200)
    [] op.op = "no_content_204" -> New(204)
    [] op.op = "redirect_301" -> WithHeader(New(301), "location", op.s)
    [] op.op = "redirect_303" -> WithHeader(New(303), "location", op.s)
    [] op.op = "unauthorized_401" -> New(401)
    [] op.op = "forbidden_403" -> New(403)
    [] op.op = "not_found_404" -> MkText(404, "not found")
    [] op.op = "method_not_allowed_405" -> WithHeader(New(405), "allow", JoinComma(op.list))
    [] op.op = "length_required_411" -> MkText(411, "not accepting streaming uploads")
    [] op.op = "payload_too_large_413" -> MkText(413, "Uploaded data is too big.")
    [] op.op = "unprocessable_entity_422" -> MkText(422, op.s)
    [] op.op = "too_many_requests_429" -> MkText(429, "Too many requests.")
    [] op.op = "internal_server_error_500" -> New(500)
    [] op.op = "not_implemented_501" -> New(501)
    [] op.op = "service_unavailable_503" -> New(503)
    [] op.op = "new" -> New(op.n)
    [] op.op = "text" -> MkText(op.n, op.s)
    [] op.op = "html" -> MkHtml(op.n, op.s)
IsCtor(op) == op.op \in {"ok_200", "no_content_204", "redirect_301", "redirect_303", "unauthorized_401", "forbidden_403",
                         "not_found_404", "method_not_allowed_405", "length_required_411", "payload_too_large_413",
                         "unprocessable_entity_422", "too_many_requests_429", "internal_server_error_500",
                         "not_implemented_501", "service_unavailable_503", "new", "text", "html"}

\* the modifiers: each touches one field and leaves the others alone
Modify(r, op) ==
  CASE op.op = "with_body" -> [r EXCEPT !.body = op.s]
    [] op.op = "with_max_age_seconds" -> WithHeader(r, "cache-control", "max-age=" \o op.s)   \* op.s: the decimal digits
    [] op.op = "with_no_store" -> WithHeader(r, "cache-control", "no-store")
    [] op.op = "with_header" -> WithHeader(r, op.name, op.s)
    [] op.op = "with_status" -> [r EXCEPT !.code = op.n]
    [] op.op = "with_type" -> [r EXCEPT !.ctype = IF op.s \in Named THEN CTText[op.s] ELSE op.text]

RECURSIVE Fold(_, _)
Fold(r, ops) == IF ops = <<>> THEN r ELSE Fold(Modify(r, ops[1]), Tail(ops))
Build(ops) == Fold(Ctor(ops[1]), Tail(ops))

\* the classification helpers
ClassOk(g) == /\ g.is1 = (g.code >= 100 /\ g.code <= 199) /\ g.is2 = (g.code >= 200 /\ g.code <= 299)
              /\ g.is3 = (g.code >= 300 /\ g.code <= 399) /\ g.is4 = (g.code >= 400 /\ g.code <= 499)
              /\ g.is5 = (g.code >= 500 /\ g.code <= 599) /\ g.normal

\* which part of the result differs (<<>> = none); "Code" first: that one is C20's
BuildWhy(ops, g) ==
  IF g.panic THEN <<"BuildPanic">>
  ELSE LET w == Build(ops) IN
       IF w.code # g.code THEN <<"BuildCode", w.code, g.code>>
       ELSE IF ~g.normal THEN <<"BuildCode", "not a normal response">>
       ELSE IF w.ctype # g.ctype THEN <<"BuildType", w.ctype, g.ctype>>
       ELSE IF w.hdrs # g.hdrs THEN <<"BuildHeaders", w.hdrs, g.hdrs>>
       ELSE IF w.body # g.body THEN <<"BuildBody", w.body, g.body>>
       ELSE IF ~ClassOk(g) THEN <<"BuildClass", g.code>>
       ELSE <<>>

\* ContentType: text of every named variant, and parse(as_str(v)) = v
CtWhy(e) == IF e.variant \notin Named THEN <<"CtUnknownVariant", e.variant>>
            ELSE IF e.text # CTText[e.variant] THEN <<"CtText", e.variant, e.text>>
            ELSE IF e.parsed # e.variant THEN <<"CtRoundTrip", e.variant, e.parsed>>
            ELSE <<>>
====
