---- MODULE ReadHead ----
EXTENDS Naturals, Sequences, FiniteSets, TLC
CONSTANTS Alphabet, MaxLen, BufSize
CR == 13
LF == 10
VARIABLES input, stream, buf, res, consumed
vars == <<input, stream, buf, res, consumed>>
RECURSIVE Find(_,_)
Find(s, i) == IF i + 3 > Len(s) THEN 0
              ELSE IF s[i] = CR /\ s[i+1] = LF /\ s[i+2] = CR /\ s[i+3] = LF THEN i ELSE Find(s, i+1)
\* abstract head parse: verdict is a function of the head bytes only (details live in Head!RefParse)
ParseHead(h) == IF Len(h) > 0 /\ h[1] = 97 THEN [k |-> "Ok", h |-> h] ELSE [k |-> "Malformed", h |-> h]
Prefix(s, n) == SubSeq(s, 1, IF n < Len(s) THEN n ELSE Len(s))
Oracle(in) == LET w == Prefix(in, BufSize)   \* what can ever be in the buffer before the first decision
                  p == Find(w, 1)
              IN IF p > 0 THEN [out |-> ParseHead(SubSeq(in, 1, p-1)), used |-> p + 3]
                 ELSE IF Len(in) >= BufSize THEN [out |-> [k |-> "HeadTooLong"], used |-> 0]
                 ELSE IF Len(in) = 0 THEN [out |-> [k |-> "Disconnected"], used |-> 0]
                 ELSE [out |-> [k |-> "Truncated"], used |-> 0]
RECURSIVE Strs(_)
Strs(n) == IF n = 0 THEN {<<>>} ELSE LET S == Strs(n-1) IN S \cup {Append(s, c) : s \in {t \in S : Len(t) = n-1}, c \in Alphabet}
Init == /\ input \in Strs(MaxLen) /\ stream = input /\ buf = <<>> /\ res = [k |-> "pending"] /\ consumed = 0
\* one iteration of read_http_head's loop, split at its await
TryParse == /\ res.k = "pending"
            /\ LET p == Find(buf, 1) IN
               /\ p > 0
               /\ res' = ParseHead(SubSeq(buf, 1, p-1))
               /\ consumed' = p + 3
               /\ buf' = SubSeq(buf, p+4, Len(buf))
            /\ UNCHANGED <<input, stream>>
Full == res.k = "pending" /\ Find(buf, 1) = 0 /\ Len(buf) = BufSize /\ res' = [k |-> "HeadTooLong"] /\ UNCHANGED <<input, stream, buf, consumed>>
Read(k) == /\ res.k = "pending" /\ Find(buf, 1) = 0 /\ Len(buf) < BufSize
           /\ k >= 1 /\ k <= Len(stream) /\ k <= BufSize - Len(buf)
           /\ buf' = buf \o SubSeq(stream, 1, k) /\ stream' = SubSeq(stream, k+1, Len(stream))
           /\ UNCHANGED <<input, res, consumed>>
ReadEof == /\ res.k = "pending" /\ Find(buf, 1) = 0 /\ Len(buf) < BufSize /\ stream = <<>>
           /\ res' = (IF buf = <<>> THEN [k |-> "Disconnected"] ELSE [k |-> "Truncated"])
           /\ UNCHANGED <<input, stream, buf, consumed>>
Next == TryParse \/ Full \/ ReadEof \/ \E k \in 1..BufSize : Read(k)
Spec == Init /\ [][Next]_vars /\ WF_vars(Next)
SplitIndependence == res.k # "pending" => /\ res = Oracle(input).out
                                         /\ consumed = Oracle(input).used
                                         /\ (res.k \in {"Ok", "Malformed"} => buf \o stream = SubSeq(input, consumed + 1, Len(input)))
Terminates == <>(res.k # "pending")
====
