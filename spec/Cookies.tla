---- MODULE Cookies ----
(***************************************************************************)
(* C15, response side: RFC 6265 section 5.2 set-cookie-string parsing (plus *)
(* the SameSite attribute of 6265bis), written from the RFC's numbered      *)
(* steps, on code points.  The request side (Cookie header -> map) lives in *)
(* Framing!CookieFields.                                                    *)
(***************************************************************************)
EXTENDS Bytes, TLC
Wsp == {32, 9}
TrimW(s) == TrimBy(s, Wsp)
A_MAXAGE == <<109,97,120,45,97,103,101>>
A_DOMAIN == <<100,111,109,97,105,110>>
A_PATH == <<112,97,116,104>>
A_SECURE == <<115,101,99,117,114,101>>
A_HTTPONLY == <<104,116,116,112,111,110,108,121>>
A_SAMESITE == <<115,97,109,101,115,105,116,101>>
None == [ok |-> FALSE]
\* 5.2 steps 3-6 of the attribute loop, folded over the unparsed attributes (which start with ";")
RECURSIVE Attrs(_, _)
Attrs(u, c) ==
  IF u = <<>> THEN c
  ELSE LET rest == Tail(u)                                                 \* discard the ";"
           e == IndexOf(rest, 59)
           av == IF e = 0 THEN rest ELSE Sub(rest, 1, e - 1)
           next == IF e = 0 THEN <<>> ELSE Sub(rest, e, Len(rest))
           q == IndexOf(av, 61)
           an == LowerSeq(TrimW(IF q = 0 THEN av ELSE Sub(av, 1, q - 1)))
           v == TrimW(IF q = 0 THEN <<>> ELSE Sub(av, q + 1, Len(av)))
           c2 == CASE an = A_MAXAGE -> IF v # <<>> /\ (v[1] \in Digit \/ v[1] = 45) /\ \A i \in 2..Len(v) : v[i] \in Digit THEN [c EXCEPT !.maxAge = v] ELSE c
                   [] an = A_DOMAIN -> IF v = <<>> THEN c ELSE [c EXCEPT !.domain = LowerSeq(IF v[1] = 46 THEN Tail(v) ELSE v)]
                   [] an = A_PATH -> IF v = <<>> \/ v[1] # 47 THEN [c EXCEPT !.path = <<>>] ELSE [c EXCEPT !.path = v]
                   [] an = A_SECURE -> [c EXCEPT !.secure = TRUE]
                   [] an = A_HTTPONLY -> [c EXCEPT !.httpOnly = TRUE]
                   [] an = A_SAMESITE -> [c EXCEPT !.sameSite = LowerSeq(v)]
                   [] OTHER -> c                                             \* unknown attributes (and Expires, not compared) are ignored
       IN Attrs(next, c2)
Parse(s) ==
  LET semi == IndexOf(s, 59)
      nv == IF semi = 0 THEN s ELSE Sub(s, 1, semi - 1)
      un == IF semi = 0 THEN <<>> ELSE Sub(s, semi, Len(s))
      eq == IndexOf(nv, 61)
  IN IF eq = 0 THEN None
     ELSE LET name == TrimW(Sub(nv, 1, eq - 1)) value == TrimW(Sub(nv, eq + 1, Len(nv))) IN
          IF name = <<>> THEN None
          ELSE Attrs(un, [ok |-> TRUE, name |-> name, value |-> value, maxAge |-> <<>>, domain |-> <<>>, path |-> <<>>, secure |-> FALSE, httpOnly |-> FALSE, sameSite |-> <<>>])
\* what the application asked for, against what a client reads back from the one set-cookie field
Judge(e) ==
  LET p == Parse(e.field) IN
  /\ e.count = 1                                              \* one set-cookie field per cookie
  /\ p.ok /\ p.name = e.name /\ p.value = e.value
  /\ p.domain = LowerSeq(e.domain) /\ p.path = e.path
  /\ p.maxAge = (IF e.maxAge = <<48>> THEN <<>> ELSE e.maxAge)  \* zero means "unset" in this API
  /\ p.secure = e.secure /\ p.httpOnly = e.httpOnly /\ p.sameSite = e.sameSite
====
