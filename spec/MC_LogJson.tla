---- MODULE MC_LogJson ----
(***************************************************************************)
(* Transcription sanity for the RFC 8259 reader: a reference ENCODER written *)
(* from section 7 of the RFC (escape the quotation mark, the reverse         *)
(* solidus and U+0000..U+001F; everything else literally) must be inverted   *)
(* by the DECODER LogJson!String for every string up to length 3 over an     *)
(* alphabet containing all the special classes.                              *)
(***************************************************************************)
EXTENDS LogJson
CONSTANT Alphabet, MaxLen
VARIABLE s
HexDigitOf(v) == IF v < 10 THEN 48 + v ELSE 87 + v
EncChar(c) == IF c = 34 THEN <<92, 34>> ELSE IF c = 92 THEN <<92, 92>>
              ELSE IF c < 32 THEN <<92, 117, 48, 48, HexDigitOf(c \div 16), HexDigitOf(c % 16)>> ELSE <<c>>
RECURSIVE Enc(_)
Enc(t) == IF t = <<>> THEN <<>> ELSE EncChar(t[1]) \o Enc(Tail(t))
Encode(t) == <<34>> \o Enc(t) \o <<34>>
Init == s = <<>>
Next == Len(s) < MaxLen /\ \E c \in Alphabet : s' = Append(s, c)
Spec == Init /\ [][Next]_s
RoundTrip == LET r == String(Encode(s), 1) IN r.ok /\ r.val = s /\ r.next = Len(Encode(s)) + 1
\* a raw control character, a lone quotation mark or a lone backslash inside a string is never accepted
Strict == \A c \in {0, 10, 31} : ~String(<<34>> \o s \o <<c, 34>>, 1).ok \/ String(<<34>> \o s \o <<c, 34>>, 1).next # Len(s) + 4
====
