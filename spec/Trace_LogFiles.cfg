SPECIFICATION TSpec
CONSTANTS
  FixPush = TRUE
  FixScan = TRUE
  FixSat = TRUE
INVARIANTS Report
CHECK_DEADLOCK FALSE
