SPECIFICATION Spec
CONSTANTS Alphabet = {0, 9, 10, 31, 32, 34, 47, 92, 97, 127, 233, 8232, 65533, 128512}
 MaxLen = 3
INVARIANTS RoundTrip Strict
CHECK_DEADLOCK FALSE
