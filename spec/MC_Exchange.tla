---- MODULE MC_Exchange ----
(***************************************************************************)
(* Bounded model checking of Exchange: every scenario of a family of          *)
(* connections (up to MaxOpen connection-preserving requests followed by any  *)
(* request of the pool) is run step by step; the properties are evaluated in  *)
(* every intermediate state, i.e. at every crash point of the multi-step      *)
(* upload.  S = 2; lengths 0..4; limits {0, 2, 3, 2^64-1}.                     *)
(***************************************************************************)
EXTENDS Exchange
CONSTANT MaxOpen
VARIABLE s
D(n) == <<48 + n>>
Normal(c) == [k |-> "Normal", code |-> c, max |-> Zero]
Fetch(m) == [k |-> "Fetch", code |-> 0, max |-> m]
Drop == [k |-> "Drop", code |-> 0, max |-> Zero]
Panic == [k |-> "Panic", code |-> 0, max |-> Zero]
Answers1 == {Normal(200), Normal(103), Normal(404), Normal(500), Fetch(D(0)), Fetch(D(2)), Fetch(D(3)), Fetch(U64Max), Drop, Panic}
Answers2 == {Normal(200), Normal(103), Normal(500), Fetch(D(3)), Drop, Panic}
Faults == {<<FALSE, FALSE, FALSE, FALSE>>, <<TRUE, FALSE, FALSE, FALSE>>, <<FALSE, TRUE, FALSE, FALSE>>, <<FALSE, FALSE, TRUE, FALSE>>,
           <<FALSE, FALSE, FALSE, TRUE>>}
R(kind, L, sent, full, expect, a1, a2, f) ==
  [kind |-> kind, L |-> L, sent |-> sent, digest |-> IF sent = Zero THEN 0 ELSE 7, full |-> full, expect |-> expect,
   answers |-> <<a1, a2>>, dirGone |-> f[1], diskFail |-> f[2], rst |-> f[3], contFail |-> f[4]]
None == {R("none", Zero, Zero, TRUE, FALSE, a, Normal(200), <<FALSE, FALSE, FALSE, FALSE>>) : a \in Answers2}
Small == {R("known", D(l), IF full THEN D(l) ELSE D(l - 1), full, ex, a, Normal(200), <<FALSE, FALSE, FALSE, FALSE>>) :
            l \in 1..2, full \in BOOLEAN, ex \in BOOLEAN, a \in Answers2}
Large == {R("known", D(3), IF full THEN D(3) ELSE D(1), full, ex, a1, a2, f) :
            full \in BOOLEAN, ex \in BOOLEAN, a1 \in Answers1, a2 \in Answers2, f \in Faults}
Unknown == {R("unknown", Zero, D(n), TRUE, ex, a1, a2, f) :
            n \in {0, 3, 4}, ex \in BOOLEAN, a1 \in Answers1, a2 \in Answers2, f \in Faults}
Malformed == {R("malformed", Zero, Zero, TRUE, FALSE, Normal(200), Normal(200), <<FALSE, FALSE, FALSE, FALSE>>)}
Pool == None \cup Small \cup Large \cup Unknown \cup Malformed
\* requests after which the connection stays open
Openers == {R("none", Zero, Zero, TRUE, FALSE, Normal(200), Normal(200), <<FALSE, FALSE, FALSE, FALSE>>),
            R("known", D(2), D(2), TRUE, TRUE, Normal(200), Normal(200), <<FALSE, FALSE, FALSE, FALSE>>),
            R("known", D(3), D(3), TRUE, FALSE, Fetch(D(3)), Normal(200), <<FALSE, FALSE, FALSE, FALSE>>),
            R("known", D(3), D(3), TRUE, TRUE, Fetch(U64Max), Normal(200), <<FALSE, FALSE, FALSE, FALSE>>)}
RECURSIVE OpenSeqs(_)
OpenSeqs(n) == IF n = 0 THEN {<<>>} ELSE LET P == OpenSeqs(n - 1) IN P \cup {Append(p, o) : p \in {q \in P : Len(q) = n - 1}, o \in Openers}
Scenarios == {o \o <<q>> : o \in OpenSeqs(MaxOpen), q \in Pool} \cup OpenSeqs(MaxOpen)
Cfgs == {[S |-> D(2), cache |-> TRUE], [S |-> D(2), cache |-> FALSE]}
MInit == \E cfg \in Cfgs, reqs \in Scenarios : s = InitState(cfg, reqs)
MNext == ~Done(s) /\ s' = Step(s)
MSpec == MInit /\ [][MNext]_s /\ WF_s(MNext)
InvNoLeak == NoLeak(s)
InvCallCount == CallCount(s)
InvOrder == Order(s)
InvClosedIsFinal == ClosedIsFinal(s)
InvMemBound == MemBound(s)
InvDiskBound == DiskBound(s)
InvIntact == Intact(s)
\* every connection task ends
Ends == <>Done(s)
\* exactly one final response per request that was answered by a Normal answer, a panic, or an error; none after a drop
FinalAnswers == Done(s) => \A k \in 1..Len(s.reqs) : (k < s.i => s.finals[k] = 1)
====
