---- MODULE Trace_Head ----
(***************************************************************************)
(* impl -> spec for C01 / C02.                                              *)
(*  TryRead: one input through Head::try_read (whole buffer) and through    *)
(*           read_http_head under a random partition and end of stream.     *)
(*  Splits : one short input under EVERY partition into reads; the set of   *)
(*           distinct outcomes is logged.                                   *)
(*  Tcp    : one input through a real server.                               *)
(* The oracle is Head!RefParse (RFC 7230 ABNF) plus ReadHead's whole-input  *)
(* outcome function; it has no notion of reads.                             *)
(***************************************************************************)
EXTENDS Head, Json, IOUtils, TLCExt, SequencesExt
Rec == ndJsonDeserialize(IOEnv.TRACE)
VARIABLES l, bad, nvalid, cls
tvars == <<l, bad, nvalid, cls>>
E == Rec[l]
FindT(s, i) == FindCrlfCrlf(s)      \* i is always 1
Prefix(s, n) == SubSeq(s, 1, IF n < Len(s) THEN n ELSE Len(s))

\* Whole-input outcome of reading a head with a buffer of N bytes (ReadHead!Oracle with RefParse plugged in)
FindFirst(s) == FindT(s, 1)
Oracle0(in, N) ==
  LET p == Force(FindFirst, Prefix(in, N)) IN
  IF p > 0 THEN LET ref == RefParse(SubSeq(in, 1, p - 1)) IN
                [kinds |-> IF ref.class = "accept" THEN {"Ok"} ELSE IF ref.class = "reject" THEN ref.errs ELSE ref.errs \cup {"Ok"},
                 rest |-> Len(in) - (p + 3), cmp |-> TRUE, ref |-> ref, p |-> p]
  ELSE IF Len(in) >= N THEN [kinds |-> {"HeadTooLong"}, rest |-> 0, cmp |-> FALSE, ref |-> [class |-> "none"], p |-> 0]
  ELSE IF Len(in) = 0 THEN [kinds |-> {"Disconnected"}, rest |-> 0, cmp |-> TRUE, ref |-> [class |-> "none"], p |-> 0]
  ELSE [kinds |-> {"Truncated"}, rest |-> Len(in), cmp |-> TRUE, ref |-> [class |-> "none"], p |-> 0]

Oracle(in, N) == CHOOSE r \in {Oracle0(x, N) : x \in {in}} : TRUE

SameParse(o, ref) == /\ o.k = "Ok" /\ o.method = ref.method /\ o.path = ref.path /\ o.hasQuery = ref.hasQuery
                     /\ o.query = ref.query /\ o.fields = ref.fields
AsciiOk2(s) == \A i \in 1..Len(s) : s[i] < 128

\* ---- Head::try_read on the whole buffer (C02) ----
JudgeParse(e) ==
  LET p == FindT(e.bytes, 1) IN
  IF ~e.fits THEN "ok-skip"
  ELSE IF e.out.k = "Panic" THEN "BAD-panic"
  ELSE IF p = 0 THEN IF e.out.k = "Truncated" /\ e.used = 0 THEN "ok-trunc" ELSE "BAD-trunc"
  ELSE LET ref == RefParse(SubSeq(e.bytes, 1, p-1)) IN
       IF e.used # p + 3 THEN "BAD-consumed"
       ELSE IF ref.class = "accept" THEN IF SameParse(e.out, ref) THEN "ok-accept" ELSE "BAD-accept"
       ELSE IF ref.class = "reject" THEN IF e.out.k \in ref.errs THEN "ok-reject" ELSE "BAD-reject"
       ELSE IF (e.out.k = "Ok" \/ e.out.k \in ref.errs)
               /\ (e.out.k = "Ok" => \A i \in 1..Len(e.out.fields) : AsciiOk2(e.out.fields[i][1]) /\ AsciiOk2(e.out.fields[i][2]))
               /\ (e.out.k = "Ok" /\ ref.lf.on => ref.lf.ref.class = "accept" /\ SameParse(e.out, ref.lf.ref))
               /\ (e.out.k = "Ok" /\ ref.faith.on => e.out.path = ref.faith.path /\ e.out.hasQuery = ref.faith.hasQuery
                                                       /\ e.out.query = ref.faith.query)
            THEN "ok-free" ELSE "BAD-free"

\* ---- read_http_head under a partition and an end of stream (C01) ----
JudgeSplit(e) ==
  LET in == SubSeq(e.bytes, 1, e.eofAt)
      o == Oracle(in, 8192)
      s == e.split
  IN IF s.k = "Panic" THEN "BAD-split-panic"
     ELSE IF s.k = "Hang" \/ e.polls > Len(in) + 3 THEN "BAD-loop"
     ELSE IF s.k \notin o.kinds THEN "BAD-split-outcome"
     ELSE IF o.cmp /\ e.rest # o.rest THEN "BAD-split-consumed"
     ELSE IF o.p > 0 /\ o.ref.class = "accept" /\ ~SameParse(s, o.ref) THEN "BAD-split-accept"
     \* the same head through the whole-buffer parser must give the same result (split independence, free zone included)
     ELSE IF o.p > 0 /\ e.fits /\ FindT(e.bytes, 1) = o.p /\ e.out # s THEN "BAD-split-differs"
     ELSE "ok"

\* ---- every partition of a short input (C01) ----
JudgeSplits(e) ==
  LET o == Oracle(e.bytes, e.buf) IN
  IF Len(e.outcomes) # 1 THEN "BAD-split-dependent"
  ELSE LET r == e.outcomes[1] IN
       IF r.k = "Panic" THEN "BAD-split-panic"
       ELSE IF r.loop \/ r.k = "Hang" THEN "BAD-loop"
       ELSE IF r.k \notin o.kinds THEN "BAD-split-outcome"
       ELSE IF o.cmp /\ r.rest # o.rest THEN "BAD-split-consumed"
       ELSE "ok"

\* ---- several heads on one stream sharing one buffer, every partition (C01 at connection level) ----
(* read_http_request is called again and again on the same N-byte buffer until it fails.  The whole-input  *)
(* oracle is applied to what is left after each head: every head that fits the buffer must be read,        *)
(* whatever was consumed before it and however the stream was cut.                                         *)
RECURSIVE SeqOracle(_, _, _)
SeqOracle(in, N, acc) ==
  LET o == Oracle(in, N) IN
  IF o.p > 0 /\ o.ref.class = "accept" /\ Len(acc) < 12
  THEN SeqOracle(SubSeq(in, o.p + 4, Len(in)), N, Append(acc, o))
  ELSE [list |-> Append(acc, o), last |-> o]
JudgeReqSplits(e) ==
  LET x == SeqOracle(e.bytes, e.buf, <<>>) IN
  IF \E i \in 1..Len(x.list) : x.list[i].ref.class = "free" THEN "ok-free"
  ELSE IF Len(e.outcomes) # 1 THEN "BAD-split-dependent"
  ELSE LET r == e.outcomes[1] IN
       IF \E i \in 1..Len(r.list) : r.list[i].k = "Panic" THEN "BAD-split-panic"
       ELSE IF r.loop \/ \E i \in 1..Len(r.list) : r.list[i].k = "Hang" THEN "BAD-loop"
       ELSE IF Len(r.list) # Len(x.list) THEN "BAD-split-outcome"
       ELSE IF \E i \in 1..Len(r.list) : r.list[i].k \notin x.list[i].kinds THEN "BAD-split-outcome"
       ELSE IF \E i \in 1..Len(r.list) : r.list[i].k = "Ok" /\ x.list[i].ref.class = "accept" /\ r.list[i].path # x.list[i].ref.path
       THEN "BAD-consumed"
       ELSE IF x.last.cmp /\ r.rest # x.last.rest THEN "BAD-split-consumed"
       ELSE "ok"

\* ---- through a real server (C01: never silently kills the connection task) ----
JudgeTcp(e) ==
  IF e.panics # <<>> THEN "BAD-task-panic"
  ELSE IF e.ended # "Eof" THEN "BAD-no-answer"
  ELSE LET p == FindT(e.bytes, 1) IN
       IF p = 0 THEN (IF e.gotlen = 0 \/ e.status = 400 THEN "ok" ELSE "BAD-tcp-status")
       ELSE LET ref == RefParse(SubSeq(e.bytes, 1, p-1)) IN
            IF ref.class = "accept" THEN (IF e.status \in {200, 400, 411, 413} THEN "ok" ELSE "BAD-tcp-status")   \* framing fields may make a valid head a bad request
            ELSE IF ref.class = "reject" THEN (IF e.status \in {400, 505} THEN "ok" ELSE "BAD-tcp-status")
            ELSE "ok"

Judge(e) == CASE e.ev = "TryRead" -> <<JudgeParse(e), JudgeSplit(e)>>
              [] e.ev = "Splits" -> <<JudgeSplits(e)>>
              [] e.ev = "ReqSplits" -> <<JudgeReqSplits(e)>>
              [] e.ev = "Tcp" -> <<JudgeTcp(e)>>
              [] OTHER -> <<"ok">>
IsBad(t) == SubSeq(t, 1, 3) = "BAD"
TInit == l = 1 /\ bad = {} /\ nvalid = 0 /\ cls = <<>>
TNext == /\ l <= Len(Rec) /\ l' = l + 1
         /\ IF E.ev = "Reset" THEN UNCHANGED <<bad, nvalid, cls>>
            ELSE LET j == Judge(E)
                     fails == SelectSeq(j, LAMBDA t : t \notin {"ok", "ok-skip", "ok-trunc", "ok-accept", "ok-reject", "ok-free"})
                 IN /\ cls' = IF E.ev = "TryRead" THEN (IF j[1] \in DOMAIN cls THEN [cls EXCEPT ![j[1]] = @ + 1] ELSE cls @@ (j[1] :> 1)) ELSE cls
                    /\ IF fails = <<>> THEN nvalid' = nvalid + 1 /\ bad' = bad
                       ELSE bad' = bad \cup {<<E.sid, l, fails>>} /\ nvalid' = nvalid
TSpec == TInit /\ [][TNext]_tvars
Report == IF l = Len(Rec) + 1
          THEN JsonSerialize(IOEnv.REPORT, [nvalid |-> nvalid, bad |-> SetToSeq(bad), events |-> Len(Rec), classes |-> cls])
          ELSE TRUE
====
