---- MODULE Trace_Chunked ----
(* impl -> spec for C07: every recorded encoder run is judged by the RFC 7230 4.1 decoder. *)
EXTENDS Chunked, Json, IOUtils, TLCExt, SequencesExt
Rec == ndJsonDeserialize(IOEnv.TRACE)
VARIABLES l, bad, nvalid
tvars == <<l, bad, nvalid>>
E == Rec[l]
TInit == l = 1 /\ bad = {} /\ nvalid = 0
TNext == /\ l <= Len(Rec) /\ l' = l + 1
         /\ IF E.ev # "Chunks" THEN UNCHANGED <<bad, nvalid>>
            ELSE IF ChunksOk(E) THEN nvalid' = nvalid + 1 /\ bad' = bad
            ELSE bad' = bad \cup {<<E.sid, l, <<"Chunks", E.fault, E.res, E.n>> >>} /\ nvalid' = nvalid
TSpec == TInit /\ [][TNext]_tvars
Report == IF l = Len(Rec) + 1
          THEN JsonSerialize(IOEnv.REPORT, [nvalid |-> nvalid, bad |-> SetToSeq(bad), events |-> Len(Rec)])
          ELSE TRUE
====
