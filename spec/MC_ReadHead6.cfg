SPECIFICATION Spec
CONSTANTS Alphabet = {97, 32, 58, 13, 10, 47}
 MaxLen = 6
 BufSize = 5
INVARIANT SplitIndependence
PROPERTY Terminates
CHECK_DEADLOCK FALSE
