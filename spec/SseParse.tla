---- MODULE SseParse ----
(***************************************************************************)
(* C11: the WHATWG event-stream interpretation of one block                  *)
(* (html.spec.whatwg.org, 9.2.6 "Interpreting an event stream"), on code     *)
(* points, and what an event handed to a sender must read back as.           *)
(* A chunk is taken as one block with an implicit dispatch at its end: the   *)
(* blank line the grammar requires after a block is missing in servlin's     *)
(* encoding, a known deviation pinned by tests/event.rs (finding D7c), which *)
(* is reported separately by BlankLineOk.                                    *)
(* Scanning is written without recursion over the index (see Bytes).         *)
(***************************************************************************)
EXTENDS Bytes, SequencesExt, TLC
\* lines end with CRLF, LF or CR
LineBreaks(s) == IndicesWhere(Len(s), LAMBDA i : s[i] = CR \/ (s[i] = LF /\ (i = 1 \/ s[i-1] # CR)))
BreakWidth(s, i) == IF s[i] = CR /\ i < Len(s) /\ s[i+1] = LF THEN 2 ELSE 1
LinesAt(s, q) ==
  LET n == Len(q)
      start(k) == IF k = 1 THEN 1 ELSE q[k-1] + BreakWidth(s, q[k-1])
      lastStart == start(n + 1)
      cnt == IF lastStart <= Len(s) THEN n + 1 ELSE n            \* a final unterminated line still counts
  IN [k \in 1..cnt |-> SubSeq(s, start(k), IF k <= n THEN q[k] - 1 ELSE Len(s))]
Lines(s) == Force(LAMBDA q : LinesAt(s, q), LineBreaks(s))
F_EVENT == <<101,118,101,110,116>>
F_DATA == <<100,97,116,97>>
FieldOf(line) == LET c == IndexOf(line, 58) IN IF c = 0 THEN line ELSE SubSeq(line, 1, c - 1)
ValueOf(line) == LET c == IndexOf(line, 58)
                     v0 == IF c = 0 THEN <<>> ELSE SubSeq(line, c + 1, Len(line))
                 IN IF v0 # <<>> /\ v0[1] = 32 THEN Tail(v0) ELSE v0          \* one leading space is removed
IsField(line, f) == line # <<>> /\ IndexOf(line, 58) # 1 /\ FieldOf(line) = f   \* a line starting with ':' is a comment
ParseLines(ls) ==
  LET ev == SelectSeq(ls, LAMBDA x : IsField(x, F_EVENT))
      da == SelectSeq(ls, LAMBDA x : IsField(x, F_DATA))
      joined == FlattenSeq([k \in 1..Len(da) |-> ValueOf(da[k]) \o <<LF>>])
  IN [type |-> IF ev = <<>> THEN <<>> ELSE ValueOf(ev[Len(ev)]),
      data |-> IF joined = <<>> THEN <<>> ELSE SubSeq(joined, 1, Len(joined) - 1),
      n |-> Len(da),
      blank |-> \E k \in 1..Len(ls) : ls[k] = <<>>]            \* an empty line inside the block would dispatch early
Parse(block) == Force(ParseLines, Lines(block))
\* what the application handed over, as an EventSource client can at best see it:
\* line terminators become LF, one trailing terminator is dropped
JoinLines(ls) == LET j == FlattenSeq([k \in 1..Len(ls) |-> ls[k] \o <<LF>>]) IN IF j = <<>> THEN <<>> ELSE SubSeq(j, 1, Len(j) - 1)
Normalise(d) == Force(JoinLines, Lines(d))
\* why a block is not the faithful encoding of [type, data] (tags), <<>> if it is
BlockWhy(e) ==
  IF e.block = <<>> THEN <<"EmptyEncoding">>                 \* an event never encodes to nothing (the chunk writer would end the stream)
  ELSE LET p == Parse(e.block) IN
       IF p.blank THEN <<"EarlyDispatch">>
       ELSE IF p.type # e.type THEN <<"Type", p.type>>
       ELSE IF p.data # Normalise(e.data) THEN <<"Data", p.data>>  \* nothing in the data may become another field
       ELSE <<>>
\* the grammar requires every block to end with a blank line (D7c)
BlankLineOk(block) == Len(block) >= 2 /\ block[Len(block)] \in {CR, LF} /\ block[Len(block) - 1] \in {CR, LF}
====
