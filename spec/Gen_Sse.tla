---- MODULE Gen_Sse ----
(* behaviour generator: every edge of the Sse state graph, printed once together with a shortest
   path to its source state (history variable hidden from the state identity by VIEW) *)
EXTENDS Sse, Json
CONSTANT Bursts      \* sizes of send bursts offered to the generator (e.g. {Cap - 1}: the next two sends fill and overrun the queue)
VARIABLE hist
GInit == Init /\ hist = <<>>
Obs == [conn |-> [h \in Handles |-> hstate[h] = "connected"], out |-> [i \in 1..Len(out) |-> out[i].id], term |-> terminated]
GNext == \/ WriterPoll /\ hist' = Append(hist, [op |-> "Poll"])
         \/ \E h \in Handles :
              \/ \E e \in Events : Send(h, e) /\ hist' = Append(hist, [op |-> "Send", h |-> h, e |-> e])
              \/ \E n \in Bursts : SendMany(h, "one", n) /\ hist' = Append(hist, [op |-> "Burst", h |-> h, n |-> n])
              \/ \E g \in Handles : Clone(h, g) /\ hist' = Append(hist, [op |-> "Clone", h |-> h, g |-> g])
              \/ Disconnect(h) /\ hist' = Append(hist, [op |-> "Disconnect", h |-> h])
              \/ DropHandle(h) /\ hist' = Append(hist, [op |-> "Drop", h |-> h])
View == vars
Edge == PrintT(<<"EDGE", ToJson([h |-> hist', conn |-> [x \in Handles |-> hstate'[x] = "connected"],
                                  out |-> [i \in 1..Len(out') |-> out'[i].id], term |-> terminated'])>>)
====
