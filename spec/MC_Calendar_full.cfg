SPECIFICATION CSpec
CONSTANT LastYear = 9999
INVARIANTS Agree Inverse
CHECK_DEADLOCK FALSE
