SPECIFICATION Spec
CONSTANTS
  MaxWrite = 4
  Keep = 3
  KeepAge = 0
  MaxWriteAge = 100
  FixPush = TRUE
  FixScan = TRUE
  FixSat = FALSE
  Sizes = {1, 2, 3}
  StartSize = 1
  MaxEvents = 7
  MaxNow = 10
  MaxRestarts = 2
  ForeignLens = {2, 5}
  ForeignAges = {1, 5}
  MaxForeign = 2
  TiesPossible = FALSE
INVARIANTS TotalBound KeepsRunning AgeBound
CHECK_DEADLOCK FALSE
