---- MODULE Trace_Exchange ----
(***************************************************************************)
(* impl -> spec for C04 / C09 / C10.  One scenario = one connection.         *)
(* Reset carries the scenario (configuration, requests, handler answers);    *)
(* ReqRead / Call / Resp / Copied / ConnEnd come from servlin's hook log in   *)
(* hook order; Wire is the client's transcript; Dir the cache directory.      *)
(* Each hook event must be the next observable the Exchange machine emits     *)
(* (silent steps are taken by iterating Step until something is emitted).     *)
(* Exchange's state properties are evaluated on every state passed through.   *)
(***************************************************************************)
EXTENDS Exchange, Json, IOUtils, TLCExt, SequencesExt
Rec == ndJsonDeserialize(IOEnv.TRACE)
VARIABLES l, bad, skipping, nvalid, s, resps, flags
tvars == <<l, bad, skipping, nvalid, s, resps, flags>>
E == Rec[l]
EmptyState == InitState([S |-> Zero, cache |-> FALSE], <<>>)
NoFlags == [noWire |-> FALSE, noCopied |-> FALSE, ended |-> FALSE, pingpong |-> FALSE]
TInit == l = 1 /\ bad = {} /\ skipping = FALSE /\ nvalid = 0 /\ s = EmptyState /\ resps = <<>> /\ flags = NoFlags
Fail(why) == bad' = bad \cup {<<E.sid, l, why>>} /\ skipping' = TRUE /\ UNCHANGED <<nvalid, s, resps, flags>>

StateOk(t) == NoLeak(t) /\ CallCount(t) /\ Order(t) /\ ClosedIsFinal(t) /\ MemBound(t) /\ DiskBound(t) /\ Intact(t)
\* advance over silent steps to the next emitting step (at most 12 silent steps in a row)
RECURSIVE NextEmit(_, _)
NextEmit(t, fuel) == IF Done(t) \/ fuel = 0 THEN [t EXCEPT !.emit = NoObs]
                     ELSE LET u == Step(t) IN
                          IF ~StateOk(u) THEN [u EXCEPT !.emit = [o |-> "SpecProperty"]]
                          ELSE IF u.emit.o = "none" \/ (u.emit.o = "Copied" /\ flags.noCopied) THEN NextEmit(u, fuel - 1) ELSE u
\* does the logged event e agree with the emitted observable x?
Agrees(e, x, t) ==
  CASE e.ev = "ReqRead" -> x.o = "ReqRead"
    [] e.ev = "Call" -> x.o = "Call" /\ e.i = x.i /\ e.n = x.n /\ e.body = x.body
                        /\ (x.body # "Pending" \/ Q(t).kind = "known" => DecEq(e.len, x.len))
                        /\ (x.body # "Pending" => e.digest = x.digest)
    [] e.ev = "Resp" -> /\ x.o = "Resp"
                        /\ \/ e.code = x.code
                           \/ (x.code = 500 /\ e.code = 413 /\ ~t.cfg.cache)          \* free zone: no cache directory configured
                        /\ (e.ok \/ flags.noWire)                                      \* a write may fail only if the client hung up
    [] e.ev = "Copied" -> x.o = "Copied" /\ DecEq(e.n, x.n)
    [] e.ev = "ConnEnd" -> x.o = "ConnEnd"
    [] OTHER -> FALSE

TReset == /\ E.ev = "Reset" /\ skipping' = FALSE
          /\ s' = InitState(E.cfg, E.reqs) /\ resps' = <<>>
          /\ flags' = [noWire |-> E.noWire, noCopied |-> E.noCopied, ended |-> FALSE, pingpong |-> E.pingpong]
          /\ UNCHANGED <<bad, nvalid>>
\* The harness cannot know whether a client that hung up produced FIN or RST; the recorded events decide.
WithRst(t) == IF t.i <= Len(t.reqs) /\ t.reqs[t.i].kind = "unknown" /\ flags.noWire THEN [t EXCEPT !.reqs[t.i].rst = TRUE] ELSE t
\* ... and likewise whether the interim 100 Continue could still be written: a failed write of it says it could not
WithContFail(t) == IF t.i <= Len(t.reqs) THEN [t EXCEPT !.reqs[t.i].contFail = TRUE] ELSE t
THook == /\ E.ev \in {"ReqRead", "Call", "Resp", "Copied", "ConnEnd"} /\ ~skipping
         /\ LET s0 == IF E.ev = "Resp" /\ E.code = 100 /\ ~E.ok /\ flags.noWire THEN WithContFail(s) ELSE s
                u0 == NextEmit(s0, 12)
                u == IF Agrees(E, u0.emit, u0) THEN u0 ELSE NextEmit(WithRst(s0), 12)
                x == u.emit IN
            IF x.o = "SpecProperty" THEN Fail(<<"SpecProperty violated at", u.pc>>)
            ELSE IF Agrees(E, x, u)
            THEN /\ s' = u
                 /\ resps' = (IF x.o = "Resp" THEN Append(resps, [code |-> E.code, tag |-> x.tag]) ELSE resps)
                 /\ flags' = (IF E.ev = "ConnEnd" THEN [flags EXCEPT !.ended = TRUE] ELSE flags)
                 /\ UNCHANGED <<bad, skipping, nvalid>>
            ELSE Fail(<<"got", E.ev, IF E.ev = "Call" THEN <<E.i, E.n, E.body>> ELSE IF E.ev = "Resp" THEN <<E.code>> ELSE <<>>,
                        "expected", x, "at", s.pc>>)
IsPrefixOf(a, b) == Len(a) <= Len(b) /\ SubSeq(b, 1, Len(a)) = a
WireToks == [k \in 1..Len(E.tokens) |-> [code |-> E.tokens[k].code, tag |-> E.tokens[k].tag]]
TWire == /\ E.ev = "Wire" /\ ~skipping
         /\ IF ~flags.ended \/ ~E.ended THEN Fail(<<"the connection task did not end", s.pc>>)
            ELSE IF ~Done(s) THEN Fail(<<"events missing: the model is at", s.pc, "next", NextEmit(s, 12).emit>>)
            \* strict comparison only if the server consumed everything the client had sent before it closed
            ELSE IF flags.noWire \/ E.reset \/ ~s.drained \/ (~flags.pingpong /\ s.i < Len(s.reqs))
                 THEN (IF IsPrefixOf(WireToks, resps) THEN UNCHANGED <<bad, skipping, nvalid, s, resps, flags>>
                       ELSE Fail(<<"wire is not a prefix of the responses written", WireToks, resps>>))
            ELSE IF WireToks = resps /\ E.complete THEN UNCHANGED <<bad, skipping, nvalid, s, resps, flags>>
            ELSE Fail(<<"wire", WireToks, "responses written", resps>>)
TDir == /\ E.ev = "Dir" /\ ~skipping
        /\ IF E.files = 0 /\ s.files = 0 THEN nvalid' = nvalid + 1 /\ UNCHANGED <<bad, skipping, s, resps, flags>>
           ELSE Fail(<<"temp files left in the cache directory", E.files>>)
TSkip == E.ev # "Reset" /\ skipping /\ UNCHANGED <<bad, skipping, nvalid, s, resps, flags>>
TNext == l <= Len(Rec) /\ l' = l + 1 /\ (TReset \/ THook \/ TWire \/ TDir \/ TSkip)
TSpec == TInit /\ [][TNext]_tvars
Report == IF l = Len(Rec) + 1
          THEN JsonSerialize(IOEnv.REPORT, [nvalid |-> nvalid, bad |-> SetToSeq(bad), events |-> Len(Rec)])
          ELSE TRUE
====
