SPECIFICATION Spec
CONSTANTS Scripts <- MCScripts
 Ops <- MCOps
INVARIANTS FiveXXCloses FiveXXLast NoSecondFinal
PROPERTIES SilentAfterShutdown MisuseIsInert OnlyWhenOwed InterimKeepsOwed NoReadWhileOwed FinalDischarges AutoContinueBeforeBody
CHECK_DEADLOCK FALSE
CONSTRAINT Bound
