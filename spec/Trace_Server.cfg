SPECIFICATION TSpec
CONSTANTS
  RaceTokenWait = TRUE
INVARIANTS Report
CHECK_DEADLOCK FALSE
