SPECIFICATION TSpec
CONSTANTS
  RaceTokenWait = TRUE
  SubPermitRace = FALSE
INVARIANTS Report
CHECK_DEADLOCK FALSE
