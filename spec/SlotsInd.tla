---- MODULE SlotsInd ----
(***************************************************************************)
(* C12 for EVERY configured maximum: the counting core of                  *)
(* ServerSteps!Apply (accept loop program counter, token set, connections  *)
(* accepted / live, tokens on their way back) with the set-valued fields   *)
(* replaced by their cardinalities, and Max an unconstrained positive      *)
(* integer.  Apalache discharges the two obligations of an inductive       *)
(* invariant:  Init => IndInv  and  IndInv /\ Next => IndInv'.             *)
(* IndInv implies Limit and Conservation, so both hold for every Max, not  *)
(* only for the Max = 1..3 that TLC explores.                              *)
(***************************************************************************)
EXTENDS Integers
CONSTANT
  \* @type: Int;
  Max
VARIABLES
  \* @type: Int;
  avail,
  \* @type: Str;
  accPc,
  \* @type: Bool;
  accHolds,
  \* @type: Int;
  pendingRet,
  \* @type: Int;
  backlog,
  \* @type: Int;
  nAccepted,
  \* @type: Int;
  nLive,
  \* @type: Int;
  revoked

ConstInit == Max \in Nat /\ Max >= 1
B(b) == IF b THEN 1 ELSE 0
Init == /\ avail = Max /\ accPc = "Top" /\ accHolds = FALSE /\ pendingRet = 0 /\ backlog = 0 /\ nAccepted = 0
        /\ nLive = 0 /\ revoked = 0
\* the cases of ServerSteps!Apply that touch the counters (same guards, same effects)
ClientConnect == backlog' = backlog + 1 /\ UNCHANGED <<avail, accPc, accHolds, pendingRet, nAccepted, nLive, revoked>>
Revoke == revoked < 2 /\ revoked' = revoked + 1 /\ UNCHANGED <<avail, accPc, accHolds, pendingRet, backlog, nAccepted, nLive>>
AccWait == accPc = "Top" /\ ~accHolds /\ accPc' = "Waiting" /\ UNCHANGED <<avail, accHolds, pendingRet, backlog, nAccepted, nLive, revoked>>
TokenTake == accPc = "Waiting" /\ avail > 0 /\ avail' = avail - 1 /\ accHolds' = TRUE /\ accPc' = "Check"
             /\ UNCHANGED <<pendingRet, backlog, nAccepted, nLive, revoked>>
AccRevokedInWait == accPc = "Waiting" /\ revoked >= 1 /\ accPc' = "Done" /\ UNCHANGED <<avail, accHolds, pendingRet, backlog, nAccepted, nLive, revoked>>
AccRevokedExit == accPc = "Check" /\ revoked >= 1 /\ accPc' = "Done" /\ accHolds' = FALSE /\ pendingRet' = pendingRet + 1
                  /\ UNCHANGED <<avail, backlog, nAccepted, nLive, revoked>>
AccAccepting == accPc = "Check" /\ accHolds /\ accPc' = "Accepting" /\ UNCHANGED <<avail, accHolds, pendingRet, backlog, nAccepted, nLive, revoked>>
AccAccepted == accPc = "Accepting" /\ accHolds /\ backlog > 0 /\ backlog' = backlog - 1 /\ nAccepted' = nAccepted + 1
               /\ accHolds' = FALSE /\ accPc' = "IterEnd" /\ UNCHANGED <<avail, pendingRet, nLive, revoked>>
AccRevokedAfterAccept == accPc = "IterEnd" /\ nAccepted > 0 /\ revoked >= 1 /\ nAccepted' = nAccepted - 1
                         /\ pendingRet' = pendingRet + 1 /\ accPc' = "Done" /\ UNCHANGED <<avail, accHolds, backlog, nLive, revoked>>
AccAcceptErr == accPc = "Accepting" /\ accHolds /\ accHolds' = FALSE /\ pendingRet' = pendingRet + 1 /\ accPc' = "IterEnd"
                /\ UNCHANGED <<avail, backlog, nAccepted, nLive, revoked>>
AccIterEnd == \/ accPc = "IterEnd" /\ accPc' = "Top" /\ UNCHANGED <<avail, accHolds, pendingRet, backlog, nAccepted, nLive, revoked>>
              \/ accPc = "Accepting" /\ revoked >= 1 /\ accHolds /\ accHolds' = FALSE /\ pendingRet' = pendingRet + 1 /\ accPc' = "Top"
                 /\ UNCHANGED <<avail, backlog, nAccepted, nLive, revoked>>
TokenReturn == pendingRet > 0 /\ pendingRet' = pendingRet - 1 /\ avail' = avail + 1
               /\ UNCHANGED <<accPc, accHolds, backlog, nAccepted, nLive, revoked>>
ConnBegin == nAccepted > 0 /\ nAccepted' = nAccepted - 1 /\ nLive' = nLive + 1 /\ UNCHANGED <<avail, accPc, accHolds, pendingRet, backlog, revoked>>
ConnEnd == nLive > 0 /\ nLive' = nLive - 1 /\ pendingRet' = pendingRet + 1 /\ UNCHANGED <<avail, accPc, accHolds, backlog, nAccepted, revoked>>
Next == ClientConnect \/ Revoke \/ AccWait \/ TokenTake \/ AccRevokedInWait \/ AccRevokedExit \/ AccAccepting \/ AccAccepted
        \/ AccRevokedAfterAccept \/ AccAcceptErr \/ AccIterEnd \/ TokenReturn \/ ConnBegin \/ ConnEnd

vars == <<avail, accPc, accHolds, pendingRet, backlog, nAccepted, nLive, revoked>>
Conservation == avail + nLive + nAccepted + pendingRet + B(accHolds) = Max
Limit == nLive + nAccepted <= Max
TypeOK == /\ avail \in Nat /\ pendingRet \in Nat /\ backlog \in Nat /\ nAccepted \in Nat /\ nLive \in Nat /\ revoked \in 0..2
          /\ accPc \in {"Top", "Waiting", "Check", "Accepting", "IterEnd", "Done"} /\ accHolds \in BOOLEAN
\* the loop holds a token exactly between taking it and handing it on / giving it back
HoldsIff == accHolds <=> accPc \in {"Check", "Accepting"}
IndInv == TypeOK /\ Conservation /\ HoldsIff
IndInit == IndInv
Safety == Limit /\ Conservation
====
