---- MODULE MC_Headers ----
(***************************************************************************)
(* The header multimap as a machine: every operation sequence up to MaxOps  *)
(* on collections of up to MaxFields fields; TLC checks the clauses of C14  *)
(* after every operation.                                                   *)
(***************************************************************************)
EXTENDS Headers
MCNames == {<<97>>, <<65>>, <<98>>, <<66>>, <<99>>, <<67>>}   \* a A b B c C
MCLook == {<<97>>, <<66>>, <<99>>}                            \* a B c

(* ---------------- the machine (model checking) ---------------- *)
CONSTANTS Names, LookNames, MaxFields, MaxOps
VARIABLES h, nadd, nops, lastop
hvars == <<h, nadd, nops, lastop>>
NoOp == [op |-> "none", name |-> <<>>, ret |-> <<>>, before |-> <<>>]
HInit == h = <<>> /\ nadd = 0 /\ nops = 0 /\ lastop = NoOp
DoOp(o) == LET r == OpStep(o, h) IN
           /\ h' = r.h /\ nops' = nops + 1
           /\ nadd' = IF o.op = "add" THEN nadd + 1 ELSE nadd
           /\ lastop' = [op |-> o.op, name |-> o.name, ret |-> r.ret, before |-> h]
HNext == /\ nops < MaxOps
         /\ \/ \E n \in Names : Len(h) < MaxFields /\ DoOp([op |-> "add", name |-> n, value |-> <<118, 48 + nadd>>])
            \/ \E n \in LookNames, o \in {"get_only", "get_all", "remove_only", "remove_all"} : DoOp([op |-> o, name |-> n, value |-> <<>>])
HSpec == HInit /\ [][HNext]_hvars

\* s is a subsequence of t (order-preserving)
RECURSIVE IsSubseq(_, _)
IsSubseq(s, t) == IF s = <<>> THEN TRUE ELSE IF t = <<>> THEN FALSE
                  ELSE IF s[1] = t[1] THEN IsSubseq(Tail(s), Tail(t)) ELSE IsSubseq(s, Tail(t))
Values(hl) == [i \in 1..Len(hl) |-> hl[i][2]]
IsRemoval == lastop.op \in {"remove_only", "remove_all"}
IsLookup == lastop.op \in {"get_only", "get_all"}
\* removal leaves the other fields in their original relative order, and removes all and only the matching ones
Subsequence == IsRemoval => /\ IsSubseq(h, lastop.before)
                            /\ \A i \in 1..Len(h) : ~SameName(h[i][1], lastop.name)
                            /\ Len(h) = Len(lastop.before) - Len(Matching(lastop.before, lastop.name))
\* the values of the matching fields are returned in order (for the *_all forms: all of them)
Partition == (lastop.op \in {"get_all", "remove_all"}) =>
                /\ IsSubseq(lastop.ret, Values(lastop.before))
                /\ Len(lastop.ret) = Len(Matching(lastop.before, lastop.name))
\* single-value forms answer only when exactly one field matches
OnlyIffOne == (lastop.op \in {"get_only", "remove_only"}) =>
                (lastop.ret # <<>> <=> Len(Matching(lastop.before, lastop.name)) = 1)
LookupsDoNotChange == IsLookup => h = lastop.before
====
