SPECIFICATION CSpec
CONSTANT LastYear = 2800
INVARIANTS Agree Inverse
CHECK_DEADLOCK FALSE
