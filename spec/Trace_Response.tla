---- MODULE Trace_Response ----
(* impl -> spec for C06 / C08 / C20: every recorded serialisation, fault injection, constructor, *)
(* error mapping and close marking is judged by the predicates of Response and Status.            *)
EXTENDS Response, Json, IOUtils, TLCExt, SequencesExt
INSTANCE Status
Rec == ndJsonDeserialize(IOEnv.TRACE)
VARIABLES l, bad, nvalid
tvars == <<l, bad, nvalid>>
E == Rec[l]
\* why a serialisation is rejected (tags), <<>> if well formed
SerWhy(e) ==
  LET why == RefuseSet(e.r) IN
  IF e.res \in {"Panic", "Hang"} THEN <<e.res>>
  ELSE IF why # {} THEN (IF e.res \in why /\ e.total = 0 THEN <<>> ELSE <<"NotRefused", why, e.res, e.total>>)
  ELSE IF e.res # "Ok" THEN <<"Failed", e.res>>
  ELSE IF ~e.headEnd THEN <<"NoHeadEnd">>
  ELSE LET h == ParseHead(e.head) IN
       IF ~h.ok THEN <<"HeadGrammar">>
       ELSE IF h.code # e.r.code THEN <<"Code", h.code>>
       ELSE IF ~FieldsOk(e.r, e.close, h.fields) THEN <<"Fields", h.fields>>
       ELSE IF ~BodyOk(e.r, e.walk) THEN <<"Body">>
       ELSE <<>>
Why(e) == CASE e.ev = "Ser" -> SerWhy(e)
            [] e.ev = "Again" -> IF ScheduleInsensitive(e) THEN <<>> ELSE <<"ScheduleDependent", e.mode, e.res>>
            [] e.ev = "WriteFault" -> IF WriteFaultOk(e) THEN <<>> ELSE <<"WriteFault", e.variant, e.k, e.res>>
            [] e.ev = "BodyFault" -> IF BodyFaultOk(e) THEN <<>> ELSE <<"BodyFault", e.what, e.actual, e.res>>
            [] e.ev = "ConnFault" -> IF ConnFaultOk(e) THEN <<>> ELSE <<"ConnFault", e.what, e.r1, e.ws1, e.r2, e.ws2, e.statusLines>>
            [] e.ev = "Ctor" -> IF CtorOk(e) THEN <<>> ELSE <<"Ctor", e.name, e.code>>
            [] e.ev = "CtorList" -> <<>>
            [] e.ev = "ErrMap" -> IF ErrMapOk(e) THEN <<>> ELSE <<"ErrMap", e.variant, e.code>>
            [] e.ev = "WireCloseMark" -> IF WireCloseMarkOk(e) THEN <<>> ELSE <<"WireCloseMark", e.what, e.code, e.closeHeader>>
            [] e.ev = "CloseMark" -> IF CloseMarkOk(e) THEN <<>> ELSE <<"CloseMark", e.code, e.closeHeader, e.shut>>
            [] OTHER -> <<>>
TInit == l = 1 /\ bad = {} /\ nvalid = 0
TNext == /\ l <= Len(Rec) /\ l' = l + 1
         /\ IF E.ev = "Reset" THEN UNCHANGED <<bad, nvalid>>
            ELSE LET w == Why(E) IN
                 IF w = <<>> THEN nvalid' = nvalid + 1 /\ bad' = bad
                 ELSE bad' = bad \cup {<<E.sid, l, w>>} /\ nvalid' = nvalid
TSpec == TInit /\ [][TNext]_tvars
Report == IF l = Len(Rec) + 1
          THEN JsonSerialize(IOEnv.REPORT, [nvalid |-> nvalid, bad |-> SetToSeq(bad), events |-> Len(Rec)])
          ELSE TRUE
====
