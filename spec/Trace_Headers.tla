---- MODULE Trace_Headers ----
(* impl -> spec for C14: every recorded HeaderList operation (returned values and the  *)
(* whole list afterwards) must be what Headers!OpStep gives; every AsciiString          *)
(* constructor must accept exactly the pure-ASCII inputs and preserve them.             *)
EXTENDS Headers, Json, IOUtils, TLCExt, SequencesExt
Rec == ndJsonDeserialize(IOEnv.TRACE)
VARIABLES l, bad, skipping, nvalid, hl, sok
tvars == <<l, bad, skipping, nvalid, hl, sok>>
E == Rec[l]
TInit == l = 1 /\ bad = {} /\ skipping = FALSE /\ nvalid = 0 /\ hl = <<>> /\ sok = FALSE
Fail(why) == bad' = bad \cup {<<E.sid, l, why>>} /\ skipping' = TRUE /\ sok' = FALSE /\ UNCHANGED <<hl, nvalid>>
\* a scenario is counted valid at the Reset that follows it (or at the end of the trace)
Count == IF sok THEN nvalid + 1 ELSE nvalid
TReset == E.ev = "Reset" /\ hl' = <<>> /\ skipping' = FALSE /\ sok' = TRUE /\ nvalid' = Count /\ UNCHANGED bad
TOp == /\ E.ev = "Op" /\ ~skipping
       /\ LET r == OpStep(E, hl) IN
          IF E.panic THEN Fail(<<"Panic", E.op>>)
          ELSE IF r.ret = E.ret /\ r.h = E.list THEN hl' = r.h /\ UNCHANGED <<bad, skipping, nvalid, sok>>
          ELSE Fail(<<E.op, E.name, "before", hl, "expected", r.ret, r.h, "got", E.ret, E.list>>)
TCtor == /\ E.ev = "Ctor" /\ ~skipping
         /\ IF E.res.ok = AsciiOk(E.input) /\ (E.res.ok => E.res.bytes = E.input)
            THEN UNCHANGED <<bad, skipping, nvalid, hl, sok>>
            ELSE Fail(<<"Ctor", E.ctor, E.input, E.res>>)
TSkip == E.ev # "Reset" /\ skipping /\ UNCHANGED <<bad, skipping, nvalid, hl, sok>>
TNext == l <= Len(Rec) /\ l' = l + 1 /\ (TReset \/ TOp \/ TCtor \/ TSkip)
TSpec == TInit /\ [][TNext]_tvars
Report == IF l = Len(Rec) + 1
          THEN JsonSerialize(IOEnv.REPORT, [nvalid |-> Count, bad |-> SetToSeq(bad), events |-> Len(Rec)])
          ELSE TRUE
====
