---- MODULE Trace_LogJson ----
(* impl -> spec for C17: every rendered tag value and every log line is read back by the *)
(* RFC 8259 recogniser / decoder of LogJson.                                              *)
EXTENDS LogJson, Json, IOUtils, TLCExt, SequencesExt
Rec == ndJsonDeserialize(IOEnv.TRACE)
VARIABLES l, bad, nvalid
E == Rec[l]
LineWhy(e) ==
  LET o == Line(e.out) IN
  IF e.panic THEN <<"Panic">>
  ELSE IF ~o.ok THEN <<"NotOneJsonObjectLine">>
  ELSE IF Len(o.members) # Len(e.tags) + 3 THEN <<"MemberCount", Len(o.members), Len(e.tags) + 3>>
  ELSE IF ~LineOk(e) THEN <<"MemberValue", [k \in 1..Len(o.members) |-> o.members[k].kind]>>
  ELSE <<>>
Why(e) == CASE e.ev = "Scalar" -> IF ScalarOk(e) THEN <<>> ELSE <<"Scalar", e.cp, e.out>>
            [] e.ev = "Line" -> LineWhy(e)
            [] OTHER -> <<>>
TInit == l = 1 /\ bad = {} /\ nvalid = 0
TNext == /\ l <= Len(Rec) /\ l' = l + 1
         /\ IF E.ev = "Reset" THEN UNCHANGED <<bad, nvalid>>
            ELSE LET w == Why(E) IN
                 IF w = <<>> THEN nvalid' = nvalid + 1 /\ bad' = bad
                 ELSE bad' = bad \cup {<<E.sid, l, w>>} /\ nvalid' = nvalid
TSpec == TInit /\ [][TNext]_<<l, bad, nvalid>>
Report == IF l = Len(Rec) + 1
          THEN JsonSerialize(IOEnv.REPORT, [nvalid |-> nvalid, bad |-> SetToSeq(bad), events |-> Len(Rec)])
          ELSE TRUE
====
