---- MODULE Trace_Logger ----
(***************************************************************************)
(* impl -> spec for C18.  `logger-threads` runs 1..8 real threads, each a  *)
(* random program over {attach thread tag, clear, log at each level,       *)
(* wrapped handler, install logger, drop guard, kill receiver}; every call *)
(* is stamped at its start and at its end from one atomic counter, and     *)
(* every event that reached a harness-held logger or the stdout default is *)
(* collected at the end of the run.                                        *)
(*                                                                         *)
(* Calls of different threads overlap and the linearisation point of a     *)
(* send / install / drop / kill (inside the global-logger mutex) is not    *)
(* logged, so each such call takes effect in an internal step Apply(k)     *)
(* that TLC places somewhere between the call's start and end stamps;      *)
(* thread-local steps take effect at the start stamp.  A run is accepted   *)
(* iff SOME placement explains every return value and every delivered      *)
(* event through the operators of Logger.tla.  Accepted runs are collected *)
(* in a TLC register; GiveUp lets the search continue past a run nothing   *)
(* explains, so one pass reports every such run.                           *)
(***************************************************************************)
EXTENDS Logger, Json, IOUtils, TLCExt, SequencesExt, Functions
Rec == ndJsonDeserialize(IOEnv.TRACE)
VARIABLES r, i, open, applied, g, alive, tl, exp, seen, explicit, instOk
vars == <<r, i, open, applied, g, alive, tl, exp, seen, explicit, instOk>>

Run == Rec[r]
Ops == Run.ops
NOps == Len(Ops)
\* the 2 * NOps stamps of the run in increasing order: <<stamp, "S" | "E", op index>> (sorted by the harness)
Stamps == Run.stamps
Threads == 1..Run.threads
Loggers == 1..Run.loggers
IsSend(op) == op.op \in {"Log", "WrapEnd"}
IsWriter(op) == op.op \in {"Install", "DropGuard", "Kill"}

\* ---- what was delivered
Del == Run.delivered
HasTag(e, n, v) == \E j \in 1..Len(e.tags) : e.tags[j].n = n /\ e.tags[j].v = v
HasName(e, n) == \E j \in 1..Len(e.tags) : e.tags[j].n = n
LogEvents(m) == SelectSeq(Del, LAMBDA e : HasTag(e, "m", m))
WrapEvents(wm) == SelectSeq(Del, LAMBDA e : HasTag(e, "wm", wm) /\ ~HasName(e, "m"))

Fresh0 == /\ i = 1 /\ open = {} /\ applied = {} /\ g = NoneG
          /\ tl = <<>> /\ exp = <<>> /\ seen = <<>> /\ explicit = {} /\ instOk = <<>> /\ alive = <<>>
Reset0 == /\ i' = 1 /\ open' = {} /\ applied' = {} /\ g' = NoneG
          /\ tl' = <<>> /\ exp' = <<>> /\ seen' = <<>> /\ explicit' = {} /\ instOk' = <<>> /\ alive' = <<>>
TInit == r = 1 /\ Fresh0 /\ TLCSet(1, {}) /\ TLCSet(2, [k \in 1..Len(Rec) |-> 0])
Forget(f, k) == [x \in DOMAIN f \ {k} |-> f[x]]
TL(t) == IF t \in DOMAIN tl THEN tl[t] ELSE <<>>
AliveOf(a) == [id \in Loggers |-> IF id \in DOMAIN a THEN a[id] ELSE TRUE]
Snap(gg, aa) == [g |-> gg, alive |-> aa]
\* every open send that has not taken effect by itself sees the cell as it is now
Show(gg, aa) == [k \in DOMAIN seen |-> IF k \in explicit THEN seen[k] ELSE seen[k] \cup {Snap(gg, aa)}]
Seen(k) == IF TLCGet(2)[r] < k THEN TLCSet(2, [TLCGet(2) EXCEPT ![r] = k]) ELSE TRUE

\* ---- a line that is not a run
TSkipLine == r <= Len(Rec) /\ Run.ev # "Run" /\ r' = r + 1 /\ Reset0

(***************************************************************************)
(* Placement of the linearisation points.  install / drop / kill change    *)
(* the cell: each takes effect in its own step TApply, anywhere inside its *)
(* interval, and TLC tries every order.  A send only READS the cell unless *)
(* the cell is empty (it then starts the default logger).  The result of a *)
(* reading send depends only on which value of the cell it saw, and the    *)
(* values it can have seen are the one at its start stamp and every value  *)
(* written while it was open: these are collected in seen[k] and the end   *)
(* stamp asks whether ONE of them explains the result.  This explores the  *)
(* same placements as a separate step per send, without one state per      *)
(* subset of the sends in flight.                                          *)
(***************************************************************************)
CallTags(op) == IF op.op = "Log" THEN (IF op.hasMsg THEN WithMsg(op.msg, op.call) ELSE op.call) ELSE WrapCallTags(op.outcome)
TStart ==
  /\ r <= Len(Rec) /\ Run.ev = "Run" /\ i <= Len(Stamps) /\ Stamps[i][2] = "S"
  /\ LET k == Stamps[i][3] op == Ops[k] t == op.t IN
     /\ Seen(i)
     /\ open' = open \cup {k} /\ i' = i + 1
     /\ seen' = IF IsSend(op) THEN (k :> {Snap(g, alive)}) @@ seen ELSE seen
     /\ CASE op.op = "AddTag" -> tl' = (t :> Append(TL(t), Tag(op.n, op.v))) @@ tl /\ UNCHANGED exp
          [] op.op = "Clear" -> tl' = (t :> <<>>) @@ tl /\ UNCHANGED exp
          [] op.op = "WrapBegin" -> tl' = (t :> RequestTags(op.req)) @@ tl /\ UNCHANGED exp
          [] op.op = "Log" -> exp' = (k :> Compose(CallTags(op), TL(t))) @@ exp /\ UNCHANGED tl
          [] op.op = "WrapEnd" -> LET th == Append(TL(t), Tag("duration_ms", "*")) IN
                                  tl' = (t :> th) @@ tl /\ exp' = (k :> Compose(CallTags(op), th)) @@ exp
          [] OTHER -> UNCHANGED <<tl, exp>>
  /\ UNCHANGED <<r, applied, g, alive, explicit, instOk>>

\* a writer takes effect
TApply ==
  /\ r <= Len(Rec) /\ Run.ev = "Run"
  /\ \E k \in open \ applied :
       LET op == Ops[k] IN
       /\ IsWriter(op)
       /\ applied' = applied \cup {k}
       /\ CASE op.op = "Install" ->
                 LET s == InstallG(g, op.id) IN
                 g' = s.g /\ instOk' = (k :> s.ok) @@ instOk /\ seen' = Show(s.g, alive) /\ UNCHANGED alive
            [] op.op = "DropGuard" ->
                 LET s == DropG(g) IN
                 ~s.panics /\ g' = s.g /\ seen' = Show(s.g, alive) /\ UNCHANGED <<alive, instOk>>
            [] op.op = "Kill" ->
                 LET a == (op.id :> FALSE) @@ alive IN
                 alive' = a /\ seen' = Show(g, a) /\ UNCHANGED <<g, instOk>>
  /\ UNCHANGED <<r, i, open, tl, exp, explicit>>
\* a send finds the cell empty: it starts the default logger and its event goes there
TApplySendOnEmpty ==
  /\ r <= Len(Rec) /\ Run.ev = "Run" /\ g.k = "None"
  /\ \E k \in (open \cap DOMAIN seen) \ explicit :
       LET s == SendG(g, AliveOf(alive), 1) IN
       /\ explicit' = explicit \cup {k}
       /\ g' = s.g /\ seen' = [Show(s.g, alive) EXCEPT ![k] = {}]
  /\ UNCHANGED <<r, i, open, applied, alive, tl, exp, instOk>>

\* ---- end stamp: the return value and the delivered event must be what SOME placement implies
RetOf(o) == LET w == WrapResponse(o) IN [k |-> "Ok", code |-> w.code, bodyLen |-> w.bodyLen]
Stopped == [k |-> "Stopped", code |-> "", bodyLen |-> ""]
EventOk(evs, k, level, ok, sink) ==
  IF ok THEN /\ Len(evs) = 1 /\ evs[1].sink = sink /\ evs[1].level = level /\ TagsMatch(exp[k], evs[1].tags)
  ELSE evs = <<>>
SendExplained(k, op, ok, sink) ==
  CASE op.op = "Log" -> op.ok = ok /\ EventOk(LogEvents(op.m), k, op.level, ok, sink)
    [] op.op = "WrapEnd" -> /\ op.ret = (IF ok THEN RetOf(op.outcome) ELSE Stopped)
                            /\ EventOk(WrapEvents(op.wm), k, WrapLevel(op.outcome), ok, sink)
TEnd ==
  /\ r <= Len(Rec) /\ Run.ev = "Run" /\ i <= Len(Stamps) /\ Stamps[i][2] = "E"
  /\ LET k == Stamps[i][3] op == Ops[k] IN
     /\ (IsWriter(op) => k \in applied)
     /\ ~op.panic
     /\ CASE IsSend(op) ->
               IF k \in explicit THEN SendExplained(k, op, TRUE, Stdout)
               ELSE \E sn \in seen[k] : /\ sn.g.k # "None"
                                         /\ LET s == SendG(sn.g, AliveOf(sn.alive), 1) IN SendExplained(k, op, s.ok, s.sink)
          [] op.op = "Install" -> op.ok = instOk[k]
          [] OTHER -> TRUE
     /\ Seen(i)
     /\ open' = open \ {k} /\ i' = i + 1
     \* what was remembered about the call is no longer needed: forgetting it lets placements that differ only
     \* in the past converge to the same state
     /\ applied' = applied \ {k} /\ explicit' = explicit \ {k} /\ exp' = Forget(exp, k) /\ seen' = Forget(seen, k)
     /\ instOk' = Forget(instOk, k)
  /\ UNCHANGED <<r, g, alive, tl>>

\* ---- nothing is delivered that no call explains (checked once, when every call has ended)
Explained == \A j \in 1..Len(Del) :
               \/ \E k \in 1..NOps : Ops[k].op = "Log" /\ HasTag(Del[j], "m", Ops[k].m)
               \/ \E k \in 1..NOps : Ops[k].op = "WrapEnd" /\ HasTag(Del[j], "wm", Ops[k].wm) /\ ~HasName(Del[j], "m")
TFinish == /\ r <= Len(Rec) /\ Run.ev = "Run" /\ i > Len(Stamps) /\ Explained
           /\ TLCSet(1, TLCGet(1) \cup {r}) /\ r' = r + 1 /\ Reset0
\* lets the search go on when no placement explains the run (the run is then not in register 1)
TGiveUp == /\ r <= Len(Rec) /\ Run.ev = "Run" /\ i = 1 /\ open = {} /\ r' = r + 1 /\ Reset0

TNext == TSkipLine \/ TStart \/ TApply \/ TApplySendOnEmpty \/ TEnd \/ TFinish \/ TGiveUp
TSpec == TInit /\ [][TNext]_vars

RunLines == {k \in 1..Len(Rec) : Rec[k].ev = "Run"}
FirstUnexplained(k) ==
  LET hi == TLCGet(2)[k]
      ops == Rec[k].ops
      st == Rec[k].stamps
  IN IF hi + 1 <= Len(st) THEN <<"no placement of the linearisation points explains the call", st[hi + 1][2], ops[st[hi + 1][3]]>>
     ELSE <<"an event was delivered that no call explains">>
Report ==
  LET okSet == TLCGet(1)
      bad == {<<Rec[k].sid, k, FirstUnexplained(k)>> : k \in RunLines \ okSet}
  IN JsonSerialize(IOEnv.REPORT, [nvalid |-> Cardinality(okSet), bad |-> SetToSeq(bad), events |-> Len(Rec)])
====
