SPECIFICATION Spec
CONSTANTS
  SubPermitRace = TRUE
  RaceTokenWait = TRUE
  Max = 2
  MaxConnects = 3
  MaxReqs = 2
  MaxAcceptErrs = 1
INVARIANTS AtMostOneMoreInv
CHECK_DEADLOCK FALSE
