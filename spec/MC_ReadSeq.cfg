SPECIFICATION Spec
CONSTANTS
  Heads <- HeadsDef
  MaxMsgs = 3
  BufSize = 7
  ShiftAlways = TRUE
INVARIANTS SplitIndependence PrefixAlways
PROPERTIES Terminates
CHECK_DEADLOCK FALSE
