SPECIFICATION Spec
INVARIANT RoundTrip
CHECK_DEADLOCK FALSE
