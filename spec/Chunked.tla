---- MODULE Chunked ----
(***************************************************************************)
(* C07: chunked transfer coding (RFC 7230 section 4.1).                     *)
(*  - Hex / ParseHex: size-line text                                        *)
(*  - the decoder's judgement of a lexical walk of an output stream          *)
(* The encoder machine that is model-checked lives in MC_Chunked.           *)
(***************************************************************************)
EXTENDS Bytes, TLC

HexDigitOf(v) == IF v < 10 THEN 48 + v ELSE 87 + v          \* lower case
RECURSIVE Hex(_)
Hex(n) == IF n < 16 THEN <<HexDigitOf(n)>> ELSE Append(Hex(n \div 16), HexDigitOf(n % 16))
HexVal(c) == IF c \in 48..57 THEN c - 48 ELSE IF c \in 97..102 THEN c - 87 ELSE IF c \in 65..70 THEN c - 55 ELSE 99
RECURSIVE ParseHexAcc(_, _)
ParseHexAcc(s, acc) == IF s = <<>> THEN acc ELSE ParseHexAcc(Tail(s), acc * 16 + HexVal(s[1]))
ParseHex(s) == ParseHexAcc(s, 0)
\* chunk-size = 1*HEXDIG (at most 7 digits here: TLC integers are 32-bit)
IsHexLine(s) == s # <<>> /\ Len(s) <= 7 /\ \A i \in 1..Len(s) : HexVal(s[i]) < 16

(* A walk is what the harness reads off the output by following the sizes the    *)
(* stream itself declares:                                                        *)
(*   [chunks |-> << [size |-> bytes, len |-> n, crlf |-> BOOLEAN], ... >>,        *)
(*    term |-> the zero chunk was followed by CRLF, trailing |-> bytes left over, *)
(*    len, digest |-> of the concatenated chunk data]                             *)
\* every chunk is well formed: hexadecimal size line equal to the data length, CRLF after the data
ChunkOk(c) == IsHexLine(c.size) /\ ParseHex(c.size) = c.len /\ c.crlf
IsLast(c) == c.len = 0
\* a complete chunked body: data chunks (none of them empty), then exactly one last-chunk, then nothing
Complete(w) == /\ w.chunks # <<>> /\ w.term /\ w.trailing = 0
               /\ IsLast(w.chunks[Len(w.chunks)])
               /\ \A i \in 1..Len(w.chunks) : ChunkOk(w.chunks[i])
               /\ \A i \in 1..(Len(w.chunks) - 1) : ~IsLast(w.chunks[i])          \* no zero-length chunk before the end
\* an output that cannot be mistaken for a complete body
Incomplete(w) == ~w.term /\ \A i \in 1..Len(w.chunks) : ~IsLast(w.chunks[i])

\* the judgement of one encoder run
ChunksOk(e) ==
  CASE e.fault = "none" -> /\ e.res = "Ok" /\ Complete(e.walk)
                           /\ e.walk.len = e.srcLen /\ e.walk.digest = e.srcDigest   \* the decoder recovers exactly the source bytes
    [] e.fault = "source" -> /\ e.res = "ReaderErr" /\ Incomplete(e.walk)
                             /\ e.walk.len = e.srcLen /\ e.walk.digest = e.srcDigest \* everything delivered before the error went out
                             /\ \A i \in 1..Len(e.walk.chunks) : ChunkOk(e.walk.chunks[i])
    \* the writer reported an error once and would have accepted bytes again: an encoder may give up (next case) or carry
    \* on, but then the output has to be the complete, correct encoding -- no byte twice, none missing
    [] e.fault \notin {"none", "source"} /\ e.transient /\ e.res = "Ok" ->
                /\ Complete(e.walk) /\ e.walk.len = e.srcLen /\ e.walk.digest = e.srcDigest
    [] OTHER -> /\ e.res = "WriterErr" /\ ~Complete(e.walk)                       \* a broken connection: only a prefix went out
                /\ e.walk.len <= e.srcLen
                /\ e.walk.digest = e.srcPrefixDigest                              \* ... a prefix of the RIGHT data ...
                /\ \A i \in 1..Len(e.walk.chunks) : ChunkOk(e.walk.chunks[i])     \* ... in well-formed chunks as far as they are complete
====
