SPECIFICATION Spec
CONSTANTS
  SubPermitRace = FALSE
  RaceTokenWait = TRUE
  Max = 2
  MaxConnects = 3
  MaxReqs = 3
  MaxAcceptErrs = 1
INVARIANTS LimitInv ConservationInv StopOrderInv AtMostOneMoreInv Refill
PROPERTIES Prompt RefinesSlots
CHECK_DEADLOCK FALSE
