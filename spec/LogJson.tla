---- MODULE LogJson ----
(***************************************************************************)
(* C17: RFC 8259 recogniser / decoder over Unicode code points, written     *)
(* from the RFC, index based (no sub-sequence copying).  Member values of   *)
(* a log line are scalars, so arrays and nested objects are simply not      *)
(* accepted as member values.                                               *)
(***************************************************************************)
EXTENDS Integers, Sequences, FiniteSets, TLC

Ws == {32, 9, 10, 13}
Digit == 48..57
HexVal(c) == IF c \in 48..57 THEN c - 48 ELSE IF c \in 97..102 THEN c - 87 ELSE IF c \in 65..70 THEN c - 55 ELSE 99
At(s, i) == IF i >= 1 /\ i <= Len(s) THEN s[i] ELSE 0 - 1
RECURSIVE SkipWs(_, _)
SkipWs(s, i) == IF At(s, i) \in Ws THEN SkipWs(s, i + 1) ELSE i
Fail == [ok |-> FALSE, next |-> 0, kind |-> "fail", val |-> <<>>]

\* four hex digits at i..i+3
Hex4(s, i) == IF \A k \in 0..3 : HexVal(At(s, i + k)) < 16
              THEN HexVal(s[i]) * 4096 + HexVal(s[i+1]) * 256 + HexVal(s[i+2]) * 16 + HexVal(s[i+3]) ELSE 0 - 1

\* string = quotation-mark *char quotation-mark ; returns the decoded code points
RECURSIVE StrBody(_, _, _)
StrBody(s, i, acc) ==
  LET c == At(s, i) IN
  IF c = 0 - 1 THEN Fail
  ELSE IF c = 34 THEN [ok |-> TRUE, next |-> i + 1, kind |-> "string", val |-> acc]
  ELSE IF c < 32 THEN Fail                                    \* control characters must be escaped
  ELSE IF c # 92 THEN StrBody(s, i + 1, Append(acc, c))
  ELSE LET e == At(s, i + 1) IN
       IF e = 34 THEN StrBody(s, i + 2, Append(acc, 34))
       ELSE IF e = 92 THEN StrBody(s, i + 2, Append(acc, 92))
       ELSE IF e = 47 THEN StrBody(s, i + 2, Append(acc, 47))
       ELSE IF e = 98 THEN StrBody(s, i + 2, Append(acc, 8))
       ELSE IF e = 102 THEN StrBody(s, i + 2, Append(acc, 12))
       ELSE IF e = 110 THEN StrBody(s, i + 2, Append(acc, 10))
       ELSE IF e = 114 THEN StrBody(s, i + 2, Append(acc, 13))
       ELSE IF e = 116 THEN StrBody(s, i + 2, Append(acc, 9))
       ELSE IF e = 117 THEN
            LET u == Hex4(s, i + 2) IN
            IF u < 0 THEN Fail
            ELSE IF u >= 55296 /\ u <= 56319 THEN              \* high surrogate: must be followed by \uDC00..\uDFFF
                 IF At(s, i + 6) = 92 /\ At(s, i + 7) = 117
                 THEN LET lo == Hex4(s, i + 8) IN
                      IF lo >= 56320 /\ lo <= 57343
                      THEN StrBody(s, i + 12, Append(acc, 65536 + (u - 55296) * 1024 + (lo - 56320)))
                      ELSE Fail
                 ELSE Fail
            ELSE IF u >= 56320 /\ u <= 57343 THEN Fail          \* lone low surrogate
            ELSE StrBody(s, i + 6, Append(acc, u))
       ELSE Fail
String(s, i) == IF At(s, i) = 34 THEN StrBody(s, i + 1, <<>>) ELSE Fail

\* number = [ minus ] int [ frac ] [ exp ]
RECURSIVE Digits(_, _)
Digits(s, i) == IF At(s, i) \in Digit THEN Digits(s, i + 1) ELSE i
Number(s, i) ==
  LET a == IF At(s, i) = 45 THEN i + 1 ELSE i
      b == IF At(s, a) = 48 THEN a + 1 ELSE IF At(s, a) \in 49..57 THEN Digits(s, a) ELSE a
      c == IF b > a /\ At(s, b) = 46 THEN (IF Digits(s, b + 1) > b + 1 THEN Digits(s, b + 1) ELSE 0) ELSE b
      d == IF c > 0 /\ At(s, c) \in {69, 101}
           THEN LET g == IF At(s, c + 1) \in {43, 45} THEN c + 2 ELSE c + 1 IN (IF Digits(s, g) > g THEN Digits(s, g) ELSE 0)
           ELSE c
  IN IF b = a \/ c = 0 \/ d = 0 THEN Fail ELSE [ok |-> TRUE, next |-> d, kind |-> "number", val |-> SubSeq(s, i, d - 1)]

Lit(s, i, word, kind) == IF SubSeq(s, i, i + Len(word) - 1) = word THEN [ok |-> TRUE, next |-> i + Len(word), kind |-> kind, val |-> <<>>] ELSE Fail
Scalar(s, i) ==
  LET c == At(s, i) IN
  IF c = 34 THEN String(s, i)
  ELSE IF c = 45 \/ c \in Digit THEN Number(s, i)
  ELSE IF c = 116 THEN Lit(s, i, <<116, 114, 117, 101>>, "true")
  ELSE IF c = 102 THEN Lit(s, i, <<102, 97, 108, 115, 101>>, "false")
  ELSE IF c = 110 THEN Lit(s, i, <<110, 117, 108, 108>>, "null")
  ELSE Fail

\* object = begin-object [ member *( value-separator member ) ] end-object ; members with scalar values only
RECURSIVE Members(_, _, _)
Members(s, i, acc) ==
  LET n == String(s, SkipWs(s, i)) IN
  IF ~n.ok THEN [ok |-> FALSE, next |-> 0, members |-> acc]
  ELSE LET c == SkipWs(s, n.next) IN
       IF At(s, c) # 58 THEN [ok |-> FALSE, next |-> 0, members |-> acc]
       ELSE LET v == Scalar(s, SkipWs(s, c + 1)) IN
            IF ~v.ok THEN [ok |-> FALSE, next |-> 0, members |-> acc]
            ELSE LET e == SkipWs(s, v.next)
                     acc2 == Append(acc, [name |-> n.val, kind |-> v.kind, val |-> v.val])
                 IN IF At(s, e) = 44 THEN Members(s, e + 1, acc2)
                    ELSE IF At(s, e) = 125 THEN [ok |-> TRUE, next |-> e + 1, members |-> acc2]
                    ELSE [ok |-> FALSE, next |-> 0, members |-> acc2]
Object(s, i) ==
  IF At(s, i) # 123 THEN [ok |-> FALSE, next |-> 0, members |-> <<>>]
  ELSE IF At(s, SkipWs(s, i + 1)) = 125 THEN [ok |-> TRUE, next |-> SkipWs(s, i + 1) + 1, members |-> <<>>]
  ELSE Members(s, i + 1, <<>>)

\* ---------------- what a log line owes ----------------
\* exactly one object, then exactly one LF, nothing else
Line(s) == LET o == Object(s, 1) IN
           IF o.ok /\ o.next = Len(s) /\ s[Len(s)] = 10 THEN o ELSE [ok |-> FALSE, next |-> 0, members |-> <<>>]
IsTime(v) == Len(v) = 20 /\ \A i \in {1,2,3,4,6,7,9,10,12,13,15,16,18,19} : v[i] \in Digit
             /\ v[5] = 45 /\ v[8] = 45 /\ v[11] = 84 /\ v[14] = 58 /\ v[17] = 58 /\ v[20] = 90
\* one member against one tag:  tag = [name, kind, val]  kind in str | int | float | bool | null
MemberOk(m, t) ==
  /\ m.name = t.name
  /\ CASE t.kind = "str"   -> m.kind = "string" /\ m.val = t.val
       [] t.kind = "int"   -> m.kind = "number" /\ m.val = t.val                      \* decimal text, exact at any width
       [] t.kind = "float" -> IF t.finite THEN m.kind = "number" /\ m.val = t.val
                              ELSE m.kind \in {"string", "null"}                       \* JSON has no NaN / infinity: anything but a bare token
       [] t.kind = "bool"  -> m.kind = (IF t.val = <<1>> THEN "true" ELSE "false")
       [] t.kind = "null"  -> m.kind = "null"
LineOk(e) ==
  LET o == Line(e.out) IN
  /\ o.ok
  /\ Len(o.members) = Len(e.tags) + 3                                                  \* no member added, none lost
  /\ o.members[1].name = <<116, 105, 109, 101>> /\ o.members[1].kind = "string" /\ IsTime(o.members[1].val)
  /\ o.members[2].name = <<108, 101, 118, 101, 108>> /\ o.members[2].kind = "string" /\ o.members[2].val = e.level
  /\ \A k \in 1..Len(e.tags) : MemberOk(o.members[k + 2], e.tags[k])
  /\ o.members[Len(o.members)].name = <<116, 105, 109, 101, 95, 110, 115>> /\ o.members[Len(o.members)].kind = "number"
ScalarOk(e) == LET r == String(e.out, 1) IN r.ok /\ r.next = Len(e.out) + 1 /\ r.val = <<e.cp>>
====
