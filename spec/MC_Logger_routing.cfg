SPECIFICATION Spec
CONSTANTS
  T = {1, 2}
  L = {1, 2}
  MaxOps = 3
  EnableTags = FALSE
  EnableRouting = TRUE
  EnableWrap = FALSE
INVARIANTS ExactlyOnce Routed StoppedIsError Isolation FixedOrder GuardMatches WrapperFaithful
CHECK_DEADLOCK FALSE
