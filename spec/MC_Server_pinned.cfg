SPECIFICATION Spec
CONSTANTS Max = 1
 Clients = {c1, c2}
 RaceTokenWait = FALSE
INVARIANTS Limit Conservation StopOrder AtMostOneMore
PROPERTY Prompt
CHECK_DEADLOCK FALSE
