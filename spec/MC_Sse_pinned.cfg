SPECIFICATION Spec
CONSTANTS Cap = 2
 MaxSteps = 4
 Handles = {h1, h2}
 Events = {"one", "empty"}
 ZeroByteEvents = {"empty"}
INVARIANTS ExactlyOnceInOrder TerminatorOnlyWhenAllGone DeliveredBeforeTerminator
CHECK_DEADLOCK FALSE
