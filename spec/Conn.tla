---- MODULE Conn ----
(***************************************************************************)
(* HttpConn protocol state machine: one operator per public method.        *)
(* The machine is deterministic once the client script is fixed (the       *)
(* client has pre-written its bytes and half-closed), so every method is   *)
(* written as a total function  Step(state, op) -> [res, state', out].     *)
(* MC_Conn explores it, Trace_Conn compares recorded calls with it.        *)
(***************************************************************************)
EXTENDS Naturals, Sequences, TLC

HeadSt == [k |-> "Head", known |-> FALSE, len |-> 0, expect |-> FALSE, chunked |-> FALSE, gzip |-> FALSE]
ShutSt == [k |-> "Shutdown", known |-> FALSE, len |-> 0, expect |-> FALSE, chunked |-> FALSE, gzip |-> FALSE]
BodySt(known, len, ex, ch, gz) == [k |-> "Body", known |-> known, len |-> len, expect |-> ex, chunked |-> ch, gzip |-> gz]

(* Items of the client script still unread:                                *)
(*  [t |-> "Head", bad |-> "" or an error kind, body |-> "none"|"known"|"unknown", *)
(*   len, expect, chunked, gzip]                                           *)
(*  [t |-> "Bytes", n]         body bytes                                  *)
(*  [t |-> "Partial"]          bytes with no head terminator, then FIN      *)

St(rs, ws, inq) == [rs |-> rs, ws |-> ws, inq |-> inq]
R(res, st, out) == [res |-> res, st |-> st, out |-> out]
Same(res, st) == R(res, st, <<>>)

Ready(st) == st.rs.k = "Head" /\ st.ws = "None"

\* total number of body bytes available at the front of the queue
RECURSIVE Avail(_)
Avail(q) == IF q = <<>> \/ Head(q).t # "Bytes" THEN 0 ELSE Head(q).n + Avail(Tail(q))
RECURSIVE DropBytes(_,_)
DropBytes(q, n) == IF n = 0 \/ q = <<>> \/ Head(q).t # "Bytes" THEN q
                   ELSE IF Head(q).n <= n THEN DropBytes(Tail(q), n - Head(q).n)
                   ELSE <<[t |-> "Bytes", n |-> Head(q).n - n]>> \o Tail(q)
RECURSIVE DropAllBytes(_)
DropAllBytes(q) == IF q = <<>> THEN q ELSE DropAllBytes(Tail(q))   \* read-to-EOF consumes everything

(* ---------------- write side ---------------- *)
\* resp: [kind |-> "Normal"|"Drop"|"GetBody", code, dup |-> BOOLEAN]
WriteResponse(st, resp) ==
  IF st.ws = "None" THEN Same("ResponseAlreadySent", st)
  ELSE IF st.ws = "Shutdown" THEN Same("Disconnected", st)
  ELSE IF resp.kind # "Normal" THEN Same("UnwritableResponse", st)
  ELSE IF resp.dup THEN Same("DuplicateHeader", st)
  ELSE LET close == resp.code >= 500 /\ resp.code <= 599
           ws1 == IF resp.code \div 100 = 1 THEN st.ws ELSE "None"
           ws2 == IF close THEN "Shutdown" ELSE ws1
       IN R("Ok", St(st.rs, ws2, st.inq), <<[code |-> resp.code, close |-> close]>>)

WriteContinue(st) ==
  IF st.ws = "None" THEN Same("ResponseAlreadySent", st)
  ELSE IF st.ws = "Shutdown" THEN Same("Disconnected", st)
  ELSE WriteResponse(st, [kind |-> "Normal", code |-> 100, dup |-> FALSE])

ShutdownWrite(st) == R("Ok", St(st.rs, "Shutdown", st.inq), <<>>)

(* ---------------- read side ---------------- *)
ReadRequest(st) ==
  IF st.ws = "Response" THEN Same("ResponseNotSent", st)
  ELSE IF st.ws = "Shutdown" THEN Same("Disconnected", st)
  ELSE IF st.rs.k = "Body" THEN Same("BodyNotRead", st)
  ELSE IF st.rs.k = "Shutdown" THEN Same("Disconnected", st)
  ELSE \* from here on a response is owed, whatever the read yields
    IF st.inq = <<>> THEN R("Disconnected", St(st.rs, "Response", st.inq), <<>>)
    ELSE LET h == Head(st.inq) IN
      IF h.t # "Head" THEN R("Truncated", St(st.rs, "Response", st.inq), <<>>)   \* the partial head stays buffered
      ELSE IF h.bad # "" THEN R(h.bad, St(st.rs, "Response", Tail(st.inq)), <<>>)
      ELSE LET rs1 == IF h.body = "none" THEN HeadSt
                      ELSE BodySt(h.body = "known", h.len, h.expect, h.chunked, h.gzip)
           IN R("Ok", St(rs1, "Response", Tail(st.inq)), <<>>)

\* common tail of the two body readers once the guards have passed
ReadBodyCommon(st, toFile, max) ==
  LET b == st.rs IN
  IF b.expect /\ WriteContinue(st).res # "Ok" THEN Same(WriteContinue(st).res, st)
  ELSE LET out == IF b.expect THEN WriteContinue(st).out ELSE <<>>
           ws1 == st.ws   \* a 1xx leaves the write state alone
       IN IF b.known
          THEN IF Avail(st.inq) >= b.len
               THEN R("Ok", St(HeadSt, ws1, DropBytes(st.inq, b.len)), out)
               ELSE R("Truncated", St(HeadSt, ws1, DropBytes(st.inq, Avail(st.inq))), out)
          ELSE \* unknown length: read to end of stream
               IF toFile /\ Avail(st.inq) > max
               THEN R("BodyTooLong", St(ShutSt, ws1, DropAllBytes(st.inq)), out)
               ELSE R("Ok", St(ShutSt, ws1, DropAllBytes(st.inq)), out)

ReadBodyToVec(st) ==
  IF st.rs.k = "Head" THEN Same("BodyNotAvailable", st)
  ELSE IF st.rs.k = "Shutdown" THEN Same("Disconnected", st)
  ELSE IF st.rs.chunked \/ st.rs.gzip THEN Same("UnsupportedTransferEncoding", st)
  ELSE ReadBodyCommon(st, FALSE, 0)

ReadBodyToFile(st, max) ==
  IF st.rs.k = "Head" THEN Same("BodyNotAvailable", st)
  ELSE IF st.rs.k = "Shutdown" THEN Same("Disconnected", st)
  ELSE IF st.rs.chunked \/ st.rs.gzip THEN Same("UnsupportedTransferEncoding", st)
  ELSE IF st.rs.known /\ st.rs.len > max THEN Same("BodyTooLong", st)
  ELSE ReadBodyCommon(st, TRUE, max)

Step(st, op) ==
  CASE op.op = "ReadRequest"   -> ReadRequest(st)
    [] op.op = "ReadBodyToVec" -> ReadBodyToVec(st)
    [] op.op = "ReadBodyToFile"-> ReadBodyToFile(st, op.max)
    [] op.op = "WriteContinue" -> WriteContinue(st)
    [] op.op = "WriteResponse" -> WriteResponse(st, op.resp)
    [] op.op = "ShutdownWrite" -> ShutdownWrite(st)

(* ---------------- the machine ---------------- *)
CONSTANTS Scripts, Ops
VARIABLES st, wire, last, nreq
vars == <<st, wire, last, nreq>>
Init == \E s \in Scripts : st = St(HeadSt, "None", s) /\ wire = <<>> /\ last = [res |-> "init", out |-> <<>>, prews |-> "None"] /\ nreq = 0
\* nreq counts the calls of read_request that passed the guards (each makes one response owed)
Owes(op, r) == op.op = "ReadRequest" /\ st.ws = "None" /\ r.st.ws = "Response"
Do(op) == LET r == Step(st, op) IN st' = r.st /\ wire' = wire \o r.out /\ last' = [res |-> r.res, out |-> r.out, prews |-> st.ws]
                               /\ nreq' = IF Owes(op, r) THEN nreq + 1 ELSE nreq
Next == \E op \in Ops : Do(op)
Spec == Init /\ [][Next]_vars

(* ---------------- properties (C05) ---------------- *)
Finals(w) == SelectSeq(w, LAMBDA t : t.code \div 100 # 1)
\* nothing is ever sent once the write side is shut down
SilentAfterShutdown == [][(last'.res # "init" /\ st.ws = "Shutdown") => wire' = wire]_vars
\* misuse (any error result) never changes what is on the wire, except that the automatic
\* 100-continue of a body read may already have gone out before a Truncated / BodyTooLong
MisuseIsInert == [][(last'.res \notin {"init", "Ok", "Truncated", "BodyTooLong"}) => wire' = wire]_vars
\* a 5xx closes the write side, and is marked close
FiveXXCloses == \A i \in 1..Len(wire) : (wire[i].code >= 500 /\ wire[i].code <= 599) <=> wire[i].close
FiveXXLast == \A i \in 1..Len(wire) : wire[i].close => i = Len(wire)
\* 100-continue / any response only while a response is owed
OnlyWhenOwed == [][(last'.res # "init" /\ wire' # wire) => st.ws = "Response"]_vars
\* interim responses do not discharge the owed response
InterimKeepsOwed == [][(last'.res # "init" /\ wire' # wire /\ wire'[Len(wire')].code \div 100 = 1) => st'.ws = "Response"]_vars
\* a final response discharges the owed response, so (with OnlyWhenOwed) it cannot be sent twice
FinalDischarges == [][(last'.res # "init" /\ wire' # wire /\ wire'[Len(wire')].code \div 100 # 1) => st'.ws # "Response"]_vars
\* a body announced with Expect is never consumed without a 100-continue having gone out in that call
AutoContinueBeforeBody == [][(last'.res # "init" /\ st.rs.k = "Body" /\ st.rs.expect /\ st'.rs.k # "Body")
                              => (Len(wire') = Len(wire) + 1 /\ wire'[Len(wire')].code = 100)]_vars
\* the number of final responses never exceeds the number of requests read
NoSecondFinal == Len(Finals(wire)) <= nreq
\* a request cannot be read while a response is owed or a body is unread
NoReadWhileOwed == [][(st.ws = "Response" \/ st.rs.k = "Body") => ~(st'.inq # st.inq /\ last'.res = "Ok" /\ st'.ws = "Response" /\ st.ws = "None")]_vars
====
