---- MODULE Trace_Builder ----
(* impl -> spec for the response builder: every recorded construction is judged by Builder!BuildWhy. *)
EXTENDS Builder, Json, IOUtils, TLCExt, SequencesExt
Rec == ndJsonDeserialize(IOEnv.TRACE)
VARIABLES l, bad, nvalid
tvars == <<l, bad, nvalid>>
E == Rec[l]
Why(e) == CASE e.ev = "Build" -> BuildWhy(e.ops, e.got)
            [] e.ev = "Ct" -> CtWhy(e)
            [] OTHER -> <<>>
TInit == l = 1 /\ bad = {} /\ nvalid = 0
TNext == /\ l <= Len(Rec) /\ l' = l + 1
         /\ IF E.ev = "Reset" THEN UNCHANGED <<bad, nvalid>>
            ELSE LET w == Why(E) IN
                 IF w = <<>> THEN nvalid' = nvalid + 1 /\ bad' = bad
                 ELSE bad' = bad \cup {<<E.sid, l, w>>} /\ nvalid' = nvalid
TSpec == TInit /\ [][TNext]_tvars
Report == IF l = Len(Rec) + 1
          THEN JsonSerialize(IOEnv.REPORT, [nvalid |-> nvalid, bad |-> SetToSeq(bad), events |-> Len(Rec)])
          ELSE TRUE
====
