---- MODULE Headers ----
(***************************************************************************)
(* C14: a header collection is an ordered multimap with ASCII-case-          *)
(* insensitive names.  A collection is a sequence of <<name, value>>,       *)
(* names and values are byte tuples.  Written from the property text.       *)
(***************************************************************************)
EXTENDS Bytes

SameName(a, b) == LowerSeq(a) = LowerSeq(b)
Matching(h, n) == SelectSeq([i \in 1..Len(h) |-> i], LAMBDA i : SameName(h[i][1], n))
GetAll(h, n) == LET idx == Matching(h, n) IN [k \in 1..Len(idx) |-> h[idx[k]][2]]
GetOnly(h, n) == LET a == GetAll(h, n) IN IF Len(a) = 1 THEN <<a[1]>> ELSE <<>>       \* <<v>> or <<>> (none)
Without(h, n) == SelectSeq(h, LAMBDA f : ~SameName(f[1], n))
RemoveAll(h, n) == [ret |-> GetAll(h, n), h |-> Without(h, n)]
RemoveOnly(h, n) == [ret |-> GetOnly(h, n), h |-> Without(h, n)]
Add(h, n, v) == Append(h, <<n, v>>)
AsciiOk(s) == \A i \in 1..Len(s) : s[i] < 128

\* op = [op, name, value]
OpStep(op, hl) ==
  CASE op.op = "add" -> [ret |-> <<>>, h |-> Add(hl, op.name, op.value)]
    [] op.op = "get_only" -> [ret |-> GetOnly(hl, op.name), h |-> hl]
    [] op.op = "get_all" -> [ret |-> GetAll(hl, op.name), h |-> hl]
    [] op.op = "remove_only" -> RemoveOnly(hl, op.name)
    [] op.op = "remove_all" -> RemoveAll(hl, op.name)
====
