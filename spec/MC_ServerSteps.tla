---- MODULE MC_ServerSteps ----
(***************************************************************************)
(* ServerSteps!Apply run as a machine: the accept loop and the connection  *)
(* tasks take the steps the hooks report, the environment connects,        *)
(* revokes the permit and makes accept fail.  The same function judges the *)
(* hook logs of real runs in Trace_Server.                                 *)
(***************************************************************************)
EXTENDS ServerSteps
CONSTANTS Max, MaxConnects, MaxReqs, MaxAcceptErrs
VARIABLES sv, nport, reqs, accErrs
vars == <<sv, nport, reqs, accErrs>>
Ev(ev, a, b) == [ev |-> ev, a |-> a, b |-> b, aborted |-> <<>>]
Try(e) == LET r == Apply(sv, e) IN r.ok /\ sv' = r.sv
Init == sv = Init0(Max) /\ nport = 1 /\ reqs = 0 /\ accErrs = 0
\* ---- the accept loop and the stop signal (fair) ----
AccStep == /\ \E ev \in {"AccWait", "TokenTake", "AccRevokedInWait", "AccRevokedExit", "AccAccepting", "AccIterEnd",
                         "AcceptLoopReturned", "StoppedSending", "TokenReturn"} : Try(Ev(ev, 0, 0))
           /\ UNCHANGED <<nport, reqs, accErrs>>
AccAccepted == Try(Ev("AccAccepted", nport, 0)) /\ nport' = nport + 1 /\ UNCHANGED <<reqs, accErrs>>
\* the loop created the connection's permit and then found its own revoked: the connection is dropped, the loop returns
AccRevokedAfterAccept == /\ ~SubPermitRace /\ \E a \in sv.accepted : Try(Ev("AccRevokedAfterAccept", a, 0))
                         /\ UNCHANGED <<nport, reqs, accErrs>>
\* ---- connection tasks ----
ConnStep == \/ /\ \E a \in sv.accepted : Try(Ev("ConnBegin", a, 0))
               /\ UNCHANGED <<nport, reqs, accErrs>>
            \/ /\ reqs < MaxReqs /\ \E a \in sv.live : Try(Ev("ReqRead", a, 0))
               /\ reqs' = reqs + 1 /\ UNCHANGED <<nport, accErrs>>
            \/ /\ \E a \in sv.live \cap sv.unanswered : \E code \in {200, 500} : Try(Ev("RespWritten", a, code)) \/ Try(Ev("RespFailed", a, code))
               /\ UNCHANGED <<nport, reqs, accErrs>>
            \/ /\ \E a \in sv.live : Try(Ev("ConnEnd", a, 0))
               /\ UNCHANGED <<nport, reqs, accErrs>>
\* ---- environment ----
EnvStep == \/ /\ nport + sv.backlog <= MaxConnects /\ ~sv.loopReturned /\ Try(Ev("ClientConnect", 0, 0))
              /\ UNCHANGED <<nport, reqs, accErrs>>
           \/ /\ sv.revoked = 0 /\ Try(Ev("RevokeBegin", 0, 0)) /\ UNCHANGED <<nport, reqs, accErrs>>
           \/ /\ sv.revoked = 1 /\ Try(Ev("RevokeDone", 0, 0)) /\ UNCHANGED <<nport, reqs, accErrs>>
           \/ /\ accErrs < MaxAcceptErrs /\ Try(Ev("AccAcceptErr", 0, 0)) /\ accErrs' = accErrs + 1 /\ UNCHANGED <<nport, reqs>>
           \/ /\ ~sv.stoppedSeen /\ Try(Ev("StoppedReceived", 0, 0)) /\ UNCHANGED <<nport, reqs, accErrs>>
Next == AccStep \/ AccAccepted \/ AccRevokedAfterAccept \/ ConnStep \/ EnvStep
Spec == Init /\ [][Next]_vars /\ WF_vars(AccStep)
\* ---- the counting abstraction that Apalache proves inductive for every Max (SlotsInd.tla): every step of this machine
\* is a step of it (or leaves its variables unchanged)
Abs == INSTANCE SlotsInd WITH avail <- sv.avail, accPc <- sv.accPc, accHolds <- sv.accHolds, pendingRet <- sv.pendingRet,
                              backlog <- sv.backlog, nAccepted <- Cardinality(sv.accepted), nLive <- Cardinality(sv.live),
                              revoked <- sv.revoked
RefinesSlots == [][Abs!Next \/ UNCHANGED Abs!vars]_vars
\* ---- properties ----
LimitInv == Limit(sv)
ConservationInv == Conservation(sv)
StopOrderInv == StopOrder(sv)
AtMostOneMoreInv == AtMostOneMore(sv)
\* the stop signal comes, whatever the connections are doing (they are not assumed to make progress)
Prompt == (sv.revoked = 2) ~> sv.stoppedSent
\* once every connection has ended and every token has been handed back, all slots are available again
Refill == (sv.live = {} /\ sv.accepted = {} /\ sv.pendingRet = 0 /\ ~sv.accHolds) => sv.avail = sv.max
====
