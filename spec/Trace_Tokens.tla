---- MODULE Trace_Tokens ----
(* C12, the slot pool alone: units in the set + live tokens = size, for every API sequence. *)
EXTENDS Naturals, Sequences, FiniteSets, TLC, Json, IOUtils, TLCExt, SequencesExt
Rec == ndJsonDeserialize(IOEnv.TRACE)
RECURSIVE Run(_, _, _)
\* avail = units in the set, live = tokens handed out; TRUE iff every logged result is the one the model prescribes
Run(steps, avail, live) ==
  IF steps = <<>> THEN TRUE
  ELSE LET s == Head(steps) IN
       CASE s.op = "take" -> IF avail > 0 THEN s.ok /\ Run(Tail(steps), avail - 1, live + 1) ELSE ~s.ok /\ Run(Tail(steps), avail, live)
         [] s.op = "drop" -> IF live > 0 THEN s.had /\ Run(Tail(steps), avail + 1, live - 1) ELSE ~s.had /\ Run(Tail(steps), avail, live)
         [] s.op = "foreign" -> Run(Tail(steps), avail, live)            \* a token of no set never adds a unit
Judge(e) == Run(e.steps, e.size, 0) /\ e.refill = e.size                 \* and afterwards exactly `size` are available again
VARIABLES l, bad, nvalid
E == Rec[l]
TInit == l = 1 /\ bad = {} /\ nvalid = 0
TNext == /\ l <= Len(Rec) /\ l' = l + 1
         /\ IF E.ev # "Tokens" THEN UNCHANGED <<bad, nvalid>>
            ELSE IF Judge(E) THEN nvalid' = nvalid + 1 /\ bad' = bad
            ELSE bad' = bad \cup {<<E.sid, l, <<"Tokens", E.size, E.refill>> >>} /\ nvalid' = nvalid
TSpec == TInit /\ [][TNext]_<<l, bad, nvalid>>
Report == IF l = Len(Rec) + 1
          THEN JsonSerialize(IOEnv.REPORT, [nvalid |-> nvalid, bad |-> SetToSeq(bad), events |-> Len(Rec)])
          ELSE TRUE
====
