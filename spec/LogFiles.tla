---- MODULE LogFiles ----
(***************************************************************************)
(* C19.  The file log writer of servlin (src/log/log_file_writer.rs) and   *)
(* its retention bookkeeping (src/log/prefix_file_set.rs).                 *)
(*                                                                         *)
(* Two layers, one source of truth:                                        *)
(*  - PURE PART: the writer's state as a record `s` and every step of the  *)
(*    writer loop as an operator on it (RotateW, DeleteOldestW, AgeTrimW,  *)
(*    SizeTrimW, AppendW), composed into the big-step operators LoopW (one *)
(*    iteration of the loop = one accepted event) and StartW (scan, trim,  *)
(*    create the first file, write the start line).  Trace_LogFiles and    *)
(*    Trace_FileSet replay recordings of the real code through exactly     *)
(*    these operators.                                                     *)
(*  - MACHINE: the same steps as separately enabled actions with a program *)
(*    counter (every file-system operation is its own step, so "at every   *)
(*    moment" in the property means every state), an environment that      *)
(*    ticks the clock, stops and restarts the writer and leaves files of   *)
(*    earlier runs behind.  TLC checks the properties in every state and   *)
(*    that the small steps compose to LoopW (BigStepAgrees).               *)
(*                                                                         *)
(* The three Fix* constants name the places where the tree as pinned       *)
(* deviated (D12); all TRUE is the behaviour the property states and the   *)
(* repaired code has.  MC_LogFiles_pinned*.cfg keep the counterexamples.   *)
(***************************************************************************)
EXTENDS Integers, Sequences, FiniteSets, TLC

CONSTANTS
  FixPush,      \* push() adds the rotated file's length to the running total
  FixScan,      \* new() matches files of earlier runs (string prefix, not whole path components)
  FixSat        \* keep - current - event saturates at 0 instead of underflowing

Monus(a, b) == IF a > b THEN a - b ELSE 0
Max2(a, b) == IF a > b THEN a ELSE b
RECURSIVE SumLen(_)
SumLen(q) == IF q = <<>> THEN 0 ELSE Head(q).len + SumLen(Tail(q))

(***************************************************************************)
(* A file on disk.  `first..last` is the range of event numbers whose      *)
(* lines it holds (empty range first = last + 1 for a file that holds only *)
(* a start line), `lines` the number of lines, `mt` its modification time  *)
(* (time of the last write), `own` = written by this log (FALSE: a file    *)
(* with the prefix that something else left there).                        *)
(***************************************************************************)
File(id, len, mt, first, last, lines, own) ==
  [id |-> id, len |-> len, mt |-> mt, first |-> first, last |-> last, lines |-> lines, own |-> own]

(* What the PrefixFileSet remembers about a closed file: `kmt` is the time  *)
(* it believes the file was modified (the rotation instant, or the disk     *)
(* mtime for a scanned file).                                               *)
Entry(id, len, kmt) == [id |-> id, len |-> len, kmt |-> kmt]

(***************************************************************************)
(* Writer state.                                                           *)
(*   files   every file with the prefix that exists on disk, in creation   *)
(*           order (ground truth, what `ls` shows)                         *)
(*   known   PrefixFileSet.files in pop order (oldest first)               *)
(*   total   PrefixFileSet.len                                             *)
(*   cur     id of the file being written; curLen = LogFile.len;           *)
(*           curCreated = LogFile.created                                  *)
(*   seq     number of events accepted (and written) so far                *)
(*   mw, keep, ka   the configuration: max_write_bytes, max_keep_bytes,    *)
(*           max_keep_age (0 = None); part of the state so that one trace  *)
(*           file can hold runs of many configurations                     *)
(*   crashed the writer thread panicked (arithmetic underflow / unwrap)    *)
(***************************************************************************)
Idx(s, id) == CHOOSE i \in 1..Len(s.files) : s.files[i].id = id
HasFile(s, id) == \E i \in 1..Len(s.files) : s.files[i].id = id
RemoveFile(fs, id) == SelectSeq(fs, LAMBDA f : f.id # id)

\* -- the writer loop, step by step ------------------------------------------------------
NeedRotate(s, size, byAge) == s.curLen + size > s.mw \/ byAge

RotateW(s, size, now, byAge) ==
  IF NeedRotate(s, size, byAge)
  THEN [s EXCEPT !.known = Append(@, Entry(s.cur, s.curLen, now)),
                 !.total = IF FixPush THEN @ + s.curLen ELSE @,
                 !.files = Append(@, File(s.nextId, 0, now, s.seq + 1, s.seq, 0, TRUE)),
                 !.cur = s.nextId, !.curLen = 0, !.curCreated = now, !.nextId = @ + 1]
  ELSE s

\* delete_oldest(): remove_file, then `self.len -= file.len` (panics on underflow), then pop
DeleteOldestW(s) ==
  LET e == Head(s.known) IN
  IF e.len > s.total
  THEN [s EXCEPT !.files = RemoveFile(@, e.id), !.crashed = TRUE]
  ELSE [s EXCEPT !.files = RemoveFile(@, e.id), !.known = Tail(@), !.total = @ - e.len]

\* delete_older_than(now, dur): while the oldest is older than now - dur
Older(s, now, dur) == s.known # <<>> /\ Head(s.known).kmt < now - dur
RECURSIVE OlderTrimW(_, _, _)
OlderTrimW(s, now, dur) == IF ~s.crashed /\ Older(s, now, dur) THEN OlderTrimW(DeleteOldestW(s), now, dur) ELSE s
AgeDue(s, now) == s.ka > 0 /\ Older(s, now, s.ka)
AgeTrimW(s, now) == IF s.ka > 0 THEN OlderTrimW(s, now, s.ka) ELSE s

\* delete_oldest_while_over_max_len(budget); peek().unwrap() panics on an empty heap
RECURSIVE SizeTrimW(_, _)
SizeTrimW(s, budget) ==
  IF s.crashed \/ s.total <= budget THEN s
  ELSE IF s.known = <<>> THEN [s EXCEPT !.crashed = TRUE]
  ELSE SizeTrimW(DeleteOldestW(s), budget)

BudgetUnderflows(s, size) == ~FixSat /\ s.curLen + size > s.keep
Budget(s, size) == Monus(Monus(s.keep, s.curLen), size)

AppendW(s, size, now) ==
  LET i == Idx(s, s.cur) IN
  [s EXCEPT !.files[i].len = @ + size, !.files[i].last = s.seq + 1, !.files[i].lines = @ + 1,
            !.files[i].mt = now, !.curLen = @ + size, !.seq = @ + 1]

\* one iteration of the loop = one accepted event of `size` bytes processed at time `now`
LoopW(s, size, now, byAge) ==
  LET a == RotateW(s, size, now, byAge)
      b == AgeTrimW(a, now)
      c == IF b.crashed THEN b
           ELSE IF BudgetUnderflows(b, size) THEN [b EXCEPT !.crashed = TRUE]
           ELSE SizeTrimW(b, Budget(b, size))
  IN IF c.crashed THEN c ELSE AppendW(c, size, now)

\* -- start-up ------------------------------------------------------------------------
(* `order`: the files on disk in the order the heap will pop them (by mtime).  With the   *)
(* whole-component comparison of the pinned tree nothing is matched.                      *)
ScanW(s, order) ==
  LET k == IF FixScan THEN [i \in 1..Len(order) |-> Entry(order[i].id, order[i].len, order[i].mt)] ELSE <<>>
  IN [s EXCEPT !.known = k, !.total = SumLen(k), !.crashed = FALSE]

CreateW(s, now, startSize) ==
  [s EXCEPT !.files = Append(@, File(s.nextId, startSize, now, s.seq + 1, s.seq, 1, TRUE)),
            !.cur = s.nextId, !.curLen = startSize, !.curCreated = now, !.nextId = @ + 1]

StartW(s, order, now, startSize) ==
  LET a == SizeTrimW(ScanW(s, order), s.keep)
  IN IF a.crashed THEN a ELSE CreateW(a, now, startSize)

\* the state before the first start: nothing known, `fs` on disk
Fresh(fs, nextId, mw, keep, ka) ==
  [files |-> fs, known |-> <<>>, total |-> 0, cur |-> 0, curLen |-> 0, curCreated |-> 0, seq |-> 0,
   nextId |-> nextId, crashed |-> FALSE, mw |-> mw, keep |-> keep, ka |-> ka]

\* -- PrefixFileSet API as such (driven directly by `fileset-ops`) -----------------------------
PushW(s, e) == [s EXCEPT !.known = Append(@, e), !.total = IF FixPush THEN @ + e.len ELSE @]
\* the heap pops by kmt; a pushed entry is not necessarily the newest: keep `known` sorted (stable)
RECURSIVE InsertSorted(_, _)
InsertSorted(q, e) == IF q = <<>> THEN <<e>>
                      ELSE IF e.kmt < Head(q).kmt THEN <<e>> \o q ELSE <<Head(q)>> \o InsertSorted(Tail(q), e)
PushSortedW(s, e) == [s EXCEPT !.known = InsertSorted(@, e), !.total = IF FixPush THEN @ + e.len ELSE @]

\* -- what the property says about a state --------------------------------------------------
DiskBytes(s) == SumLen(s.files)
OwnFiles(s) == SelectSeq(s.files, LAMBDA f : f.own)
(* every surviving line of this log: the files that hold events, in creation order, hold     *)
(* consecutive ranges                                                                       *)
(* that end at the last accepted event -- a contiguous most-recent suffix, no gap, no       *)
(* duplicate                                                                                *)
ContiguousS(s) ==
  LET o == SelectSeq(OwnFiles(s), LAMBDA f : f.first <= f.last) IN     \* files holding at least one event line
  /\ \A i \in 1..(Len(o) - 1) : o[i].last + 1 = o[i + 1].first
  /\ (o # <<>> => o[Len(o)].last = s.seq)
PerFileS(s) == \A i \in 1..Len(s.files) : s.files[i].own => (s.files[i].len <= s.mw \/ s.files[i].lines <= 1)
BookkeepingS(s) ==
  /\ s.total = SumLen(s.known)
  /\ {s.known[i].id : i \in 1..Len(s.known)} \cup {s.cur} = {s.files[i].id : i \in 1..Len(s.files)}
  /\ \A i \in 1..Len(s.known) : s.known[i].len = s.files[Idx(s, s.known[i].id)].len
KnownSortedS(s) == \A i \in 1..(Len(s.known) - 1) : s.known[i].kmt <= s.known[i + 1].kmt

\* ---- the builder (LogFileWriter::new_builder / with_*): every setting lands in its own field, what is not set keeps the
\* documented default (10 MiB per file, a new file every 24 hours, no age limit), values below the documented minima
\* (64 KiB, 1 second, 1 minute) are refused.  -1 = not called / not set.
ConfigRefused(a) == \/ (a.writeBytes >= 0 /\ a.writeBytes < 65536)
                    \/ (a.writeAgeS >= 0 /\ a.writeAgeS < 1)
                    \/ (a.keepAgeS >= 0 /\ a.keepAgeS < 60)
ConfigOf(a) == [keepBytes |-> a.keepBytes,
                writeBytes |-> IF a.writeBytes >= 0 THEN a.writeBytes ELSE 10 * 1024 * 1024,
                writeAgeS |-> IF a.writeAgeS >= 0 THEN a.writeAgeS ELSE 24 * 3600,
                keepAgeS |-> a.keepAgeS]
\* What the retention property needs of the builder: a setting that was made is the one the writer runs with.  The defaults
\* and the minima are documented above (DefaultsOk, for reading) but a change to them is not a loss of the property, so a
\* refused configuration and the value of an unset field are accepted as they come.
DefaultsOk(a, g) == LET c == ConfigOf(a) IN g.writeBytes = c.writeBytes /\ g.writeAgeS = c.writeAgeS /\ g.keepAgeS = c.keepAgeS
ConfigOk(a, g) == \/ g.panic
                  \/ /\ g.prefixSame /\ g.keepBytes = a.keepBytes
                     /\ (a.writeBytes >= 0 => g.writeBytes = a.writeBytes)
                     /\ (a.writeAgeS >= 0 => g.writeAgeS = a.writeAgeS /\ g.writeAgeNs = 0)
                     /\ (a.keepAgeS >= 0 => g.keepAgeS = a.keepAgeS)
====
