---- MODULE Calendar ----
(***************************************************************************)
(* C16: the proleptic Gregorian calendar in UTC, in (days since 1970-01-01, *)
(* second of day) because TLC integers are 32-bit.  Two independent          *)
(* definitions: the successor-day rule (MC_Calendar walks it day by day)     *)
(* and the closed forms DaysFromCivil / CivilFromDays (H. Hinnant's          *)
(* algorithms); TLC checks that they agree on every day through 9999-12-31.  *)
(***************************************************************************)
EXTENDS Integers, Sequences, TLC
IsLeap(y) == (y % 4 = 0 /\ y % 100 # 0) \/ y % 400 = 0
MonthLen(y, m) == CASE m \in {1, 3, 5, 7, 8, 10, 12} -> 31 [] m \in {4, 6, 9, 11} -> 30 [] m = 2 -> IF IsLeap(y) THEN 29 ELSE 28
DaysFromCivil(y0, m, d) ==
  LET y == IF m <= 2 THEN y0 - 1 ELSE y0
      era == y \div 400
      yoe == y - era * 400
      mp == IF m > 2 THEN m - 3 ELSE m + 9
      doy == (153 * mp + 2) \div 5 + d - 1
      doe == yoe * 365 + yoe \div 4 - yoe \div 100 + doy
  IN era * 146097 + doe - 719468
CivilFromDays(z0) ==
  LET z == z0 + 719468
      era == z \div 146097
      doe == z - era * 146097
      yoe == (doe - doe \div 1460 + doe \div 36524 - doe \div 146096) \div 365
      y == yoe + era * 400
      doy == doe - (365 * yoe + yoe \div 4 - yoe \div 100)
      mp == (5 * doy + 2) \div 153
      d == doy - (153 * mp + 2) \div 5 + 1
      m == IF mp < 10 THEN mp + 3 ELSE mp - 9
  IN <<IF m <= 2 THEN y + 1 ELSE y, m, d>>
\* [sod, hour, min, sec] is the time-of-day decomposition of sod
TimeOk(t) == t[2] = t[1] \div 3600 /\ t[3] = (t[1] % 3600) \div 60 /\ t[4] = t[1] % 60
Dec2(n) == <<48 + (n \div 10), 48 + (n % 10)>>
Dec4(n) == <<48 + (n \div 1000), 48 + ((n \div 100) % 10), 48 + ((n \div 10) % 10), 48 + (n % 10)>>
\* zero-padded fixed-width text of an instant: YYYY-MM-DDTHH:MM:SSZ
Text(d, sod) == LET c == CivilFromDays(d) IN
  Dec4(c[1]) \o <<45>> \o Dec2(c[2]) \o <<45>> \o Dec2(c[3]) \o <<84>> \o Dec2(sod \div 3600) \o <<58>> \o Dec2((sod % 3600) \div 60) \o <<58>> \o Dec2(sod % 60) \o <<90>>
\* the stamp in a log file's name: the same digits without the separators (YYYYMMDDTHHMMSSZ)
Compact(d, sod) == SelectSeq(Text(d, sod), LAMBDA c : c \notin {45, 58})
\* a file created between two readings of the clock carries one of the instants in between
FileNameOk(e) == LET span == (e.ad - e.bd) * 86400 + (e["as"] - e.bs) IN
                 /\ span >= 0 /\ span <= 600
                 /\ \E k \in 0..span : LET t == e.bs + k IN e.text = Compact(e.bd + (t \div 86400), t % 86400)
\* adding a duration (dd days + ds seconds) = convert to the day line, add, convert back
AddOut(s, dd, ds) ==
  LET sod0 == s[4] * 3600 + s[5] * 60 + s[6]
      tot == sod0 + ds
      days == DaysFromCivil(s[1], s[2], s[3]) + dd + tot \div 86400
      sod == tot % 86400
      c == CivilFromDays(days)
  IN <<c[1], c[2], c[3], sod \div 3600, (sod % 3600) \div 60, sod % 60>>
====
