SPECIFICATION Spec
CONSTANTS
  MaxWrite = 4
  Keep = 14
  KeepAge = 0
  MaxWriteAge = 100
  FixPush = TRUE
  FixScan = TRUE
  FixSat = TRUE
  Sizes = {1, 2, 3}
  StartSize = 1
  MaxEvents = 8
  MaxNow = 10
  MaxRestarts = 2
  ForeignLens = {2, 5}
  ForeignAges = {1, 5}
  MaxForeign = 2
  TiesPossible = FALSE
INVARIANTS TotalBound PerFileBound Contiguous Bookkeeping KnownSorted KeepsRunning AgeBound BigStepAgrees
PROPERTIES OldestFirst SuffixOnly
CHECK_DEADLOCK FALSE
