SPECIFICATION Spec
CONSTANTS
  Heads <- HeadsDef
  MaxMsgs = 3
  BufSize = 7
  ShiftAlways = FALSE
INVARIANTS SplitIndependence PrefixAlways
PROPERTIES Terminates
CHECK_DEADLOCK FALSE
