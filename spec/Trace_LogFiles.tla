---- MODULE Trace_LogFiles ----
(***************************************************************************)
(* impl -> spec for C19.  Two recordings of the real code are judged by    *)
(* the operators of LogFiles:                                              *)
(*                                                                         *)
(*  logwriter-run: a real LogFileWriter thread in a private directory.     *)
(*    Start  the directory before the start (oldest first, by the mtimes   *)
(*           the files have), the configuration, the directory afterwards  *)
(*    Batch  the serialised sizes of the events sent, when they were sent  *)
(*           and seen (monotonic ms), the directory once the last one is   *)
(*           on disk                                                       *)
(*    Stop   the sender was dropped                                        *)
(*  The writer loop is deterministic except for rotation by age, which     *)
(*  depends on an instant the harness does not see: the specification      *)
(*  therefore carries the SET of states the writer may be in (`poss`) and  *)
(*  branches only when the logged send/seen instants leave the age test    *)
(*  undecided; each observation filters the set.  An empty set is a        *)
(*  violation.  Every surviving state must also satisfy C19's clauses.     *)
(*                                                                         *)
(*  fileset-ops: PrefixFileSet driven directly on real files with          *)
(*    synthetic clocks: New / Push / DeleteOldest / DeleteOlderThan /      *)
(*    TrimTo, the directory logged after every call.                       *)
(***************************************************************************)
EXTENDS LogFiles, Json, IOUtils, TLCExt, SequencesExt
Rec == ndJsonDeserialize(IOEnv.TRACE)
VARIABLES l, bad, skipping, nvalid, sok, poss, big, crashes
tvars == <<l, bad, skipping, nvalid, sok, poss, big, crashes>>
E == Rec[l]
Slack == 50      \* ms: guard band around the age test (monotonic vs wall clock, scheduling)

TInit == l = 1 /\ bad = {} /\ skipping = FALSE /\ nvalid = 0 /\ sok = FALSE /\ poss = {} /\ big = 0 /\ crashes = 0
Fail(why) == /\ bad' = bad \cup {<<E.sid, l, why>>} /\ skipping' = TRUE /\ sok' = FALSE
             /\ UNCHANGED <<nvalid, poss, big, crashes>>
Count == IF sok THEN nvalid + 1 ELSE nvalid
TReset == /\ E.ev = "Reset" /\ skipping' = FALSE /\ sok' = TRUE /\ nvalid' = Count /\ poss' = {} /\ big' = 0 /\ crashes' = 0
          /\ UNCHANGED bad

\* ---- what the harness can see of a file, and the same view of a specification file
Proj(f) == [len |-> f.len, own |-> f.own, lines |-> IF f.own THEN f.lines ELSE 0,
            first |-> IF f.own /\ f.first <= f.last THEN f.first ELSE 0,
            last |-> IF f.own /\ f.first <= f.last THEN f.last ELSE 0]
Seen(o) == [len |-> o.len, own |-> o.own, lines |-> o.lines, first |-> o.first, last |-> o.last]
BagOf(q) == [x \in ToSet(q) |-> Cardinality({i \in DOMAIN q : q[i] = x})]
SameDir(files, obs) == BagOf([i \in DOMAIN files |-> Proj(files[i])]) = BagOf([i \in DOMAIN obs |-> Seen(obs[i])])
\* every file of this log holds whole lines, in order, without a gap inside the file; only a file that was being written
\* when its writer was KILLED may end in a cut line (at most one per kill)
Torn(obs) == {i \in DOMAIN obs : obs[i].own /\ obs[i].torn}
Lexical(obs) == /\ \A i \in DOMAIN obs : obs[i].own => ((obs[i].whole \/ obs[i].torn) /\ obs[i].contig)
                /\ Cardinality(Torn(obs)) <= crashes
ObsBytes(obs) == LET RECURSIVE S(_) S(q) == IF q = <<>> THEN 0 ELSE Head(q).len + S(Tail(q)) IN S(obs)

\* ---- Start: adopt the directory the harness found (ids in mtime order, oldest first), then StartW
Adopt(dir, seq, mw, keep, ka) ==
  LET fs == [i \in DOMAIN dir |->
               File(i, dir[i].len, 0 - dir[i].ageS,
                    IF dir[i].own /\ dir[i].last > 0 THEN dir[i].first ELSE 1,
                    IF dir[i].own /\ dir[i].last > 0 THEN dir[i].last ELSE 0,
                    dir[i].lines, dir[i].own)]
  IN [Fresh(fs, Len(dir) + 1, mw, keep, ka) EXCEPT !.seq = seq]
(* E.ties: EVERY file found before the start carries the same mtime (a coarse file-system clock and files written in   *)
(* quick succession).  The writer cannot order them; whichever it deletes, the byte accounting must still be right:   *)
(* what is left of the old files fits the keep size, and the deletions stopped as soon as it did.                      *)
TieExplains(dir, obs, keep) ==
  LET old == SelectSeq(obs, LAMBDA o : o.last > 0 \/ o.lines # 1 \/ ~o.own)      \* everything except the new start file
      left == BagOf([i \in DOMAIN old |-> Seen(old[i])])
      was == BagOf([i \in DOMAIN dir |-> Seen(dir[i])])
      gone == {x \in DOMAIN was : (IF x \in DOMAIN left THEN left[x] ELSE 0) < was[x]}
      leftBytes == ObsBytes(old)
  IN /\ \A x \in DOMAIN left : x \in DOMAIN was /\ left[x] <= was[x]             \* nothing appeared
     /\ leftBytes <= keep                                                        \* trimmed to the keep size ...
     /\ (gone = {} \/ \E x \in gone : leftBytes + x.len > keep)                  \* ... and not further than needed
Wrap(s, lo, hi) == [s |-> s, cLo |-> lo, cHi |-> hi]
SeqNoOf(P) == IF P = {} THEN 0 ELSE (CHOOSE p \in P : TRUE).s.seq
Good(s) == ~s.crashed /\ ContiguousS(s) /\ PerFileS(s) /\ BookkeepingS(s)

TStart ==
  /\ E.ev = "Start" /\ ~skipping
  /\ LET old == SelectSeq(E.dir, LAMBDA o : ~o.new)       \* files left behind while the writer was down are marked
         prior == {p \in poss : SameDir(p.s.files, old)}
         seq0 == IF E.afterCrash THEN E.seq0 ELSE SeqNoOf(poss)
         s1 == StartW(Adopt(E.dir, seq0, E.w, E.k, E.keepAge), Adopt(E.dir, seq0, E.w, E.k, E.keepAge).files, 0, E.startLen)
     IN IF ~E.afterCrash /\ poss # {} /\ prior = {} THEN Fail(<<"the directory changed while the writer was stopped", E.dir>>)
        ELSE IF ~E.ok THEN Fail(<<"start_writer_thread failed", E.err>>)
        ELSE IF s1.crashed THEN Fail(<<"specification: start-up cannot complete">>)
        ELSE IF ~SameDir(s1.files, E.files) /\ E.ties /\ TieExplains(E.dir, E.files, E.k)
        THEN Fail(<<"TiedMtimes", "files of an earlier run that share one mtime were deleted out of log order", E.files>>)
        ELSE IF ~SameDir(s1.files, E.files)
        THEN Fail(<<"directory after start", "expected", [i \in DOMAIN s1.files |-> Proj(s1.files[i])], "got", E.files>>)
        ELSE IF ~Lexical(E.files) THEN Fail(<<"a file of this log has a broken or out-of-order line", E.files>>)
        ELSE IF ObsBytes(E.files) > E.k + E.startLen
        THEN Fail(<<"total size exceeds keep by more than one event after start", ObsBytes(E.files), E.k>>)
        ELSE /\ poss' = {Wrap(s1, E.t0, E.t1)} /\ big' = Max2(big, E.startLen)
             /\ UNCHANGED <<bad, skipping, nvalid, sok, crashes>>

(* ---- Crash: the writer's process was killed at an arbitrary instant.  Every clause that holds "at every   *)
(* moment" must hold of the directory found: bounded total size, bounded files, whole lines except for the  *)
(* one line that was being written, consecutive numbers inside and across the files that hold events.       *)
CrashRanges(obs) == LET o == SelectSeq(obs, LAMBDA f : f.own /\ f.last > 0) IN
                    /\ \A i \in 1..(Len(o) - 1) : o[i].last + 1 = o[i + 1].first
                    /\ \A i \in 1..Len(o) : o[i].first <= o[i].last
TCrash ==
  /\ E.ev = "Crash" /\ ~skipping
  /\ LET obs == E.files
         own == SelectSeq(obs, LAMBDA f : f.own)
         newest == IF own = <<>> THEN 0 ELSE Len(own) IN          \* the listing is ordered by the time of the last line
     IF \E i \in 1..Len(own) : ~own[i].contig THEN Fail(<<"after a kill: numbers out of order inside a file", obs>>)
     ELSE IF \E i \in 1..Len(own) : own[i].torn /\ i # newest /\ Cardinality({j \in 1..Len(own) : own[j].torn}) > crashes + 1
          THEN Fail(<<"after a kill: more cut lines than kills", obs>>)
     ELSE IF \E i \in 1..Len(own) : ~own[i].whole /\ ~own[i].torn THEN Fail(<<"after a kill: a broken line inside a file", obs>>)
     ELSE IF ~CrashRanges(obs) THEN Fail(<<"after a kill: a gap or a duplicate across files", obs>>)
     ELSE IF own # <<>> /\ E.maxSeq >= E.first /\ own[Len(own)].last > 0 /\ \E i \in 1..Len(own) : own[i].last > E.maxSeq THEN Fail(<<"maxSeq">>)
     ELSE IF ObsBytes(obs) > E.k + E.maxEvent THEN Fail(<<"after a kill: total size exceeds keep by more than one event", ObsBytes(obs), E.k>>)
     ELSE IF \E i \in 1..Len(own) : own[i].len > E.w + E.maxEvent THEN Fail(<<"after a kill: a file exceeds the size limit by more than one event", obs>>)
     ELSE /\ crashes' = crashes + 1 /\ poss' = {} /\ big' = Max2(big, E.maxEvent)
          /\ UNCHANGED <<bad, skipping, nvalid, sok>>

\* ---- Batch: every event is one iteration of the loop in every state the writer may be in
AgeChoices(p, wa) == IF E.t0 - p.cHi > wa + Slack THEN {TRUE}
                     ELSE IF E.t1 - p.cLo <= wa - Slack THEN {FALSE} ELSE {TRUE, FALSE}
StepP(p, size, wa) ==
  {LET n == LoopW(p.s, size, 0, b) IN
     IF n.cur # p.s.cur THEN Wrap(n, E.t0, E.t1) ELSE Wrap(n, p.cLo, p.cHi) : b \in AgeChoices(p, wa)}
RECURSIVE RunP(_, _, _)
RunP(P, sizes, wa) == IF sizes = <<>> THEN P
                      ELSE RunP(UNION {StepP(p, Head(sizes), wa) : p \in {q \in P : ~q.s.crashed}}, Tail(sizes), wa)
MaxOf(q, m) == LET RECURSIVE M(_, _) M(r, a) == IF r = <<>> THEN a ELSE M(Tail(r), Max2(a, Head(r))) IN M(q, m)

TBatch ==
  /\ E.ev = "Batch" /\ ~skipping
  /\ LET after == RunP(poss, E.sizes, E.writeAgeMs)
         fit == {p \in after : SameDir(p.s.files, E.files)}
         b2 == MaxOf(E.sizes, big)
         one == IF after = {} THEN <<>> ELSE LET p == CHOOSE q \in after : TRUE IN [i \in DOMAIN p.s.files |-> Proj(p.s.files[i])]
     IN IF ~E.seen THEN Fail(<<"the writer stopped: the last event of the batch never reached the disk", E.upto>>)
        ELSE IF after = {} THEN Fail(<<"specification: the writer cannot process this batch">>)
        ELSE IF fit = {} THEN Fail(<<"directory after events up to", E.upto, "expected", one, "got", E.files>>)
        ELSE IF ~Lexical(E.files) THEN Fail(<<"a file of this log has a broken or out-of-order line", E.files>>)
        ELSE IF \E p \in fit : ~Good(p.s) THEN Fail(<<"specification state violates a clause", E.upto>>)
        ELSE IF ObsBytes(E.files) > (CHOOSE p \in fit : TRUE).s.keep + b2
        THEN Fail(<<"total size exceeds keep by more than one event", ObsBytes(E.files)>>)
        ELSE /\ poss' = fit /\ big' = b2 /\ UNCHANGED <<bad, skipping, nvalid, sok, crashes>>

TStop == E.ev = "Stop" /\ ~skipping /\ UNCHANGED <<bad, skipping, nvalid, sok, poss, big, crashes>>
TInconclusive == E.ev = "Inconclusive" /\ ~skipping /\ skipping' = TRUE /\ sok' = FALSE
                 /\ UNCHANGED <<bad, nvalid, poss, big, crashes>>

\* ---- PrefixFileSet driven directly (fileset-ops): poss is a singleton {Wrap(s, 0, 0)}
TheS == (CHOOSE p \in poss : TRUE).s
FsResult(n, crashedExpected) ==
  IF E.err THEN Fail(<<E.ev, "returned an error">>)
  ELSE IF E.panic # crashedExpected THEN Fail(<<E.ev, "panic", E.panic, "expected", crashedExpected>>)
  ELSE IF ~SameDir(n.files, E.files)
  THEN Fail(<<E.ev, "expected", [i \in DOMAIN n.files |-> Proj(n.files[i])], "got", E.files>>)
  ELSE poss' = {Wrap(n, 0, 0)} /\ UNCHANGED <<bad, skipping, nvalid, sok, big, crashes>>
TFsNew == /\ E.ev = "FsNew" /\ ~skipping
          /\ LET a == Adopt(E.dir, 0, 0, 0, 0) IN FsResult([ScanW(a, a.files) EXCEPT !.cur = 0], FALSE)
\* the pushed file exists on disk (the harness created it); the set learns about it
TFsPush == /\ E.ev = "FsPush" /\ ~skipping /\ poss # {}
           /\ LET s == TheS
                  f == File(s.nextId, E.len, 0 - E.ageS, 1, 0, 0, FALSE)
                  n == PushSortedW([s EXCEPT !.files = Append(@, f), !.nextId = @ + 1], Entry(s.nextId, E.setLen, 0 - E.ageS))
              IN FsResult(n, FALSE)
TFsDeleteOldest == /\ E.ev = "FsDeleteOldest" /\ ~skipping /\ poss # {}
                   /\ IF TheS.known = <<>> THEN FsResult(TheS, TRUE)
                      ELSE LET n == DeleteOldestW(TheS) IN FsResult([n EXCEPT !.crashed = FALSE], n.crashed)
TFsOlder == /\ E.ev = "FsDeleteOlderThan" /\ ~skipping /\ poss # {}
            /\ LET n == OlderTrimW(TheS, 0 - E.nowAgeS, E.durS) IN FsResult([n EXCEPT !.crashed = FALSE], n.crashed)
TFsTrim == /\ E.ev = "FsTrimTo" /\ ~skipping /\ poss # {}
           /\ LET n == SizeTrimW(TheS, E.max) IN FsResult([n EXCEPT !.crashed = FALSE], n.crashed)

TConfig == /\ E.ev = "Config" /\ ~skipping
           /\ IF ConfigOk(E.args, E.got) THEN UNCHANGED <<bad, skipping, nvalid, sok, poss, big, crashes>>
              ELSE Fail(<<"Config", E.args, "got", E.got>>)
\* (an operation on a file set that was never made: only a damaged trace has this)
TFsOrphan == /\ E.ev \in {"FsPush", "FsDeleteOldest", "FsDeleteOlderThan", "FsTrimTo"} /\ ~skipping /\ poss = {}
             /\ Fail(<<E.ev, "without a file set">>)
TSkip == E.ev # "Reset" /\ skipping /\ UNCHANGED <<bad, skipping, nvalid, sok, poss, big, crashes>>
TNext == l <= Len(Rec) /\ l' = l + 1
         /\ (TReset \/ TStart \/ TCrash \/ TBatch \/ TStop \/ TInconclusive \/ TFsNew \/ TFsPush \/ TFsDeleteOldest \/ TFsOlder
             \/ TFsTrim \/ TFsOrphan \/ TConfig \/ TSkip)
TSpec == TInit /\ [][TNext]_tvars
Report == IF l = Len(Rec) + 1
          THEN JsonSerialize(IOEnv.REPORT, [nvalid |-> Count, bad |-> SetToSeq(bad), events |-> Len(Rec)])
          ELSE TRUE
====
