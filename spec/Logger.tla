---- MODULE Logger ----
(***************************************************************************)
(* C18.  servlin's logging front end (src/log/logger.rs, src/log/mod.rs):  *)
(* thread-local tag lists, the process-wide logger cell (None / Some /     *)
(* Default), event composition with the fixed tag priority, delivery, and  *)
(* the request/response wrapper.                                           *)
(*                                                                         *)
(* PURE PART (this module): every step as an operator -- Compose, the cell *)
(* transitions SendG / InstallG / DropG, the wrapper's request tags,       *)
(* response choice, level and call tags.  MC_Logger runs them as a         *)
(* multi-threaded machine; Trace_Logger replays recordings of the real     *)
(* code through them, inferring the unlogged linearisation points.         *)
(*                                                                         *)
(* A tag is [n |-> name, v |-> value]; names and values are opaque atoms   *)
(* (strings in traces).  The value "*" in an EXPECTED tag matches any      *)
(* value (durations, request ids, backtraces).                             *)
(***************************************************************************)
EXTENDS Naturals, Sequences, FiniteSets, TLC

Tag(n, v) == [n |-> n, v |-> v]

\* log(): sort_by_key with this key; Vec::sort_by_key is stable
Prio(n) == CASE n = "msg" -> 0 [] n = "http_method" -> 1 [] n = "path" -> 2 [] n = "request_body_len" -> 3
             [] n = "request_body" -> 4 [] n = "response_body_len" -> 5 [] OTHER -> 99
PrioClasses == <<0, 1, 2, 3, 4, 5, 99>>
Class(tags, p) == SelectSeq(tags, LAMBDA t : Prio(t.n) = p)
StableByPrio(tags) == Class(tags, 0) \o Class(tags, 1) \o Class(tags, 2) \o Class(tags, 3) \o Class(tags, 4)
                      \o Class(tags, 5) \o Class(tags, 99)

\* the event a logging call composes: the call's tags, then the calling thread's own tags, stably sorted
Compose(call, thread) == StableByPrio(call \o thread)
\* error(msg, tags) / info / debug put the message first
WithMsg(msg, call) == <<Tag("msg", msg)>> \o call

(* The same thing said without the sort (what the property text says): the priorities never *)
(* decrease along the event, tags of equal priority keep the order given (call tags before  *)
(* thread tags), and nothing is added or lost.                                              *)
IsOrdered(ev, call, thread) ==
  LET given == call \o thread IN
  /\ Len(ev) = Len(given)
  /\ \A i \in 1..(Len(ev) - 1) : Prio(ev[i].n) <= Prio(ev[i + 1].n)
  /\ \A p \in {PrioClasses[k] : k \in 1..Len(PrioClasses)} : Class(ev, p) = Class(given, p)

\* ---- the global logger cell ----------------------------------------------------------------
\* [k |-> "None" | "Some" | "Default", id |-> logger id (Some) / incarnation (Default)]
NoneG == [k |-> "None", id |-> 0]
SomeG(id) == [k |-> "Some", id |-> id]
DefaultG(n) == [k |-> "Default", id |-> n]
Stdout == 0      \* the sink of every default (stdout) logger

(* global_logger().send(event) under the mutex: an empty cell first becomes Default (a new   *)
(* stdout logger thread); the event goes to the cell's sender; Err iff that receiver is gone *)
SendG(g, alive, nextDefault) ==
  LET g1 == IF g.k = "None" THEN DefaultG(nextDefault) ELSE g
      sink == IF g1.k = "Some" THEN g1.id ELSE Stdout
  IN [g |-> g1, sink |-> sink, ok |-> (sink = Stdout \/ alive[sink])]
\* set_global_logger: refused iff a logger set this way is still installed; replaces a default
InstallG(g, id) == IF g.k = "Some" THEN [g |-> g, ok |-> FALSE] ELSE [g |-> SomeG(id), ok |-> TRUE]
\* ClearGlobalLoggerOnDrop::drop asserts the cell is Some and empties it
DropG(g) == [g |-> NoneG, panics |-> g.k # "Some"]

\* ---- the request / response wrapper -----------------------------------------------------------
(* req = [method, path, id, bodyLen] with bodyLen = "none" when the length is unknown           *)
RequestTags(req) ==
  <<Tag("http_method", req.method), Tag("path", req.path), Tag("request_id", req.id)>>
  \o (IF req.bodyLen # "none" THEN <<Tag("request_body_len", req.bodyLen)>> ELSE <<Tag("request_body", "\"pending\"")>>)
(* resp = [code, bodyLen] *)
ResponseTags(resp) ==
  <<Tag("code", resp.code)>> \o (IF resp.bodyLen # "none" THEN <<Tag("response_body_len", resp.bodyLen)>> ELSE <<>>)
Bare500 == [code |-> "500", bodyLen |-> "0"]
(* outcome of the wrapped handler:                                                               *)
(*   [k |-> "Ok", resp]                                                                          *)
(*   [k |-> "Err", hasResp, resp, hasMsg, msg, hasBt, tags]                                      *)
WrapResponse(o) == IF o.k = "Ok" THEN o.resp ELSE IF o.hasResp THEN o.resp ELSE Bare500
WrapLevel(o) == IF o.k = "Ok" THEN "info" ELSE "error"
WrapCallTags(o) ==
  IF o.k = "Ok" THEN ResponseTags(o.resp)
  ELSE o.tags \o (IF o.hasMsg THEN <<Tag("msg", o.msg)>> ELSE <<>>) \o (IF o.hasBt THEN <<Tag("msg", "*")>> ELSE <<>>)
       \o ResponseTags(WrapResponse(o))
\* thread tags at the end of the wrapped call: the request's, whatever the handler attached, the duration
WrapThreadTags(req, attached) == RequestTags(req) \o attached \o <<Tag("duration_ms", "*")>>

\* ---- matching an observed event against an expected one ("*" = any value) -------------------------
TagMatches(exp, got) == exp.n = got.n /\ (exp.v = "*" \/ exp.v = got.v)
TagsMatch(exp, got) == Len(exp) = Len(got) /\ \A i \in 1..Len(exp) : TagMatches(exp[i], got[i])
====
