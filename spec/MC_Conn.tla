---- MODULE MC_Conn ----
EXTENDS Conn
H(bad, body, len, ex, ch, gz) == [t |-> "Head", bad |-> bad, body |-> body, len |-> len, expect |-> ex, chunked |-> ch, gzip |-> gz]
B(n) == [t |-> "Bytes", n |-> n]
MCScripts == {
  <<>>,                                                      \* nothing + FIN
  <<H("", "none", 0, FALSE, FALSE, FALSE)>>,                 \* bodiless
  <<H("", "known", 3, FALSE, FALSE, FALSE), B(3)>>,          \* small known body
  <<H("", "known", 3, FALSE, FALSE, FALSE), B(3), H("", "none", 0, FALSE, FALSE, FALSE)>>,  \* + pipelined
  <<H("", "known", 3, TRUE, FALSE, FALSE), B(3)>>,           \* Expect + body
  <<H("", "unknown", 0, FALSE, FALSE, FALSE), B(5)>>,        \* unknown length
  <<H("", "unknown", 0, FALSE, TRUE, FALSE), B(8)>>,         \* chunked
  <<H("", "known", 10, FALSE, FALSE, FALSE), B(4)>>,         \* truncated body
  <<H("MalformedRequestLine", "none", 0, FALSE, FALSE, FALSE)>>,   \* garbage with terminator
  <<[t |-> "Partial"]>>,                                      \* garbage without terminator
  <<H("", "unknown", 0, TRUE, FALSE, FALSE), B(5)>>,         \* Expect + unknown length
  <<H("", "unknown", 0, FALSE, FALSE, TRUE), B(2)>>,         \* gzip
  <<H("", "known", 3, FALSE, FALSE, TRUE), B(3)>>,           \* gzip with a declared length
  <<H("", "none", 0, FALSE, FALSE, FALSE), H("", "none", 0, FALSE, FALSE, FALSE)>>  \* two pipelined bodiless
}
Resp(kind, code, dup) == [op |-> "WriteResponse", resp |-> [kind |-> kind, code |-> code, dup |-> dup]]
MCOps == { [op |-> "ReadRequest"], [op |-> "ReadBodyToVec"], [op |-> "WriteContinue"], [op |-> "ShutdownWrite"],
           [op |-> "ReadBodyToFile", max |-> 0], [op |-> "ReadBodyToFile", max |-> 2], [op |-> "ReadBodyToFile", max |-> 3], [op |-> "ReadBodyToFile", max |-> 1000],
           Resp("Normal", 103, FALSE), Resp("Normal", 200, FALSE), Resp("Normal", 404, FALSE), Resp("Normal", 500, FALSE),
           Resp("GetBody", 0, FALSE), Resp("Drop", 0, FALSE), Resp("Normal", 200, TRUE) }
Bound == Len(wire) <= 5
====
