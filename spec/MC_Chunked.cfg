SPECIFICATION MSpec
CONSTANTS MaxPiece = 20
 Cap = 17
 MaxPieces = 3
INVARIANTS Decodes NoEarlyZero ErrorLeavesNoTerminator NoLeadingZero
PROPERTY Terminates
CHECK_DEADLOCK FALSE
