SPECIFICATION MSpec
CONSTANT MaxOpen = 1
INVARIANTS InvNoLeak InvCallCount InvOrder InvClosedIsFinal InvMemBound InvDiskBound InvIntact FinalAnswers
PROPERTY Ends
CHECK_DEADLOCK FALSE
