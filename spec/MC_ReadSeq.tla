---- MODULE MC_ReadSeq ----
EXTENDS ReadSeq
\* "a", "aaa", "aaaa" are well-formed heads of 5, 7 (exactly the buffer) and 8 bytes (one too many); "b" is malformed;
\* <<a CR LF>> is a head cut short
HeadsDef == {<<97, 13, 10, 13, 10>>, <<97, 97, 97, 13, 10, 13, 10>>, <<98, 13, 10, 13, 10>>, <<97, 13, 10>>,
             <<97, 97, 97, 97, 13, 10, 13, 10>>}
====
