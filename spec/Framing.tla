---- MODULE Framing ----
(***************************************************************************)
(* C03 / C15 (request side): what reading a request derives from the header *)
(* fields -- body framing, transfer-coding flags, Expect, content type,     *)
(* cookies, and the header list the handler sees (C14).  Written from       *)
(* RFC 7230 section 3.3.3 and the property text.  Names and values are byte *)
(* tuples; lengths are decimal digit tuples.                                *)
(***************************************************************************)
EXTENDS Headers, TLC

IsLen(v) == IsDigits(v) /\ DecLeq(v, U64Max)

\* ---------------- names ----------------
N_CT == <<99,111,110,116,101,110,116,45,116,121,112,101>>
N_CL == <<99,111,110,116,101,110,116,45,108,101,110,103,116,104>>
N_TE == <<116,114,97,110,115,102,101,114,45,101,110,99,111,100,105,110,103>>
N_EXPECT == <<101,120,112,101,99,116>>
N_COOKIE == <<99,111,111,107,105,101>>
V_CHUNKED == <<99,104,117,110,107,101,100>>
V_GZIP == <<103,122,105,112>>
V_100 == <<49,48,48,45,99,111,110,116,105,110,117,101>>
M_POST == <<80,79,83,84>>
M_PUT == <<80,85,84>>

\* ---------------- transfer codings: gzip / chunked / gzip,chunked, in that order, nothing else ----------------
Codings(v) == SelectSeq([i \in 1..Len(Split(v, 44)) |-> Trim(Split(v, 44)[i])], LAMBDA c : c # <<>>)
TE(fields) ==
  LET vs == GetAll(fields, N_TE) IN
  IF vs = <<>> THEN [ok |-> TRUE, gzip |-> FALSE, chunked |-> FALSE, free |-> FALSE]
  ELSE IF Len(vs) > 1 THEN [ok |-> FALSE, gzip |-> FALSE, chunked |-> FALSE, free |-> FALSE]      \* repeated field: ambiguous, rejected
  ELSE LET c == Codings(vs[1]) IN
       IF c = <<>> THEN [ok |-> TRUE, gzip |-> FALSE, chunked |-> FALSE, free |-> FALSE]
       ELSE IF c = <<V_GZIP, V_CHUNKED>> THEN [ok |-> TRUE, gzip |-> TRUE, chunked |-> TRUE, free |-> FALSE]
       ELSE IF c = <<V_GZIP>> THEN [ok |-> TRUE, gzip |-> TRUE, chunked |-> FALSE, free |-> FALSE]
       ELSE IF c = <<V_CHUNKED>> THEN [ok |-> TRUE, gzip |-> FALSE, chunked |-> TRUE, free |-> FALSE]
       ELSE [ok |-> FALSE, gzip |-> FALSE, chunked |-> FALSE,
             free |-> [k \in 1..Len(c) |-> LowerSeq(c[k])] \in {<<V_GZIP, V_CHUNKED>>, <<V_GZIP>>, <<V_CHUNKED>>}]   \* only the letter case of a known coding differs

\* ---------------- cookies (property text of C15) ----------------
RECURSIVE CookiePairs(_, _)
CookiePairs(segs, acc) ==
  IF segs = <<>> THEN [ok |-> TRUE, pairs |-> acc]
  ELSE LET s == Trim(Head(segs)) IN
       IF s = <<>> THEN CookiePairs(Tail(segs), acc)
       ELSE LET e == IndexOf(s, 61) IN
            IF e = 0 THEN [ok |-> FALSE, pairs |-> acc]
            ELSE CookiePairs(Tail(segs), Append(acc, <<Sub(s, 1, e-1), Sub(s, e+1, Len(s))>>))
RECURSIVE CookieFields(_, _)
CookieFields(vals, acc) ==
  IF vals = <<>> THEN [ok |-> TRUE, pairs |-> acc]
  ELSE LET r == CookiePairs(Split(Head(vals), 59), acc) IN IF r.ok THEN CookieFields(Tail(vals), r.pairs) ELSE r
\* later duplicates override earlier ones: the map as a set of pairs keyed by name
CookieMap(pairs) == { <<pairs[i][1], pairs[i][2]>> : i \in { j \in 1..Len(pairs) : \A k \in (j+1)..Len(pairs) : pairs[k][1] # pairs[j][1] } }

\* ---------------- content type: first token before ';' against the table, case-sensitive (pinned by tests/request.rs) ----------------
MediaTypes == (<<116,101,120,116,47,99,115,115>> :> "Css") @@ (<<116,101,120,116,47,99,115,118>> :> "Csv") @@ (<<116,101,120,116,47,101,118,101,110,116,45,115,116,114,101,97,109>> :> "EventStream") @@ (<<97,112,112,108,105,99,97,116,105,111,110,47,120,45,119,119,119,45,102,111,114,109,45,117,114,108,101,110,99,111,100,101,100>> :> "FormUrlEncoded") @@ (<<105,109,97,103,101,47,103,105,102>> :> "Gif") @@ (<<116,101,120,116,47,104,116,109,108>> :> "Html") @@ (<<116,101,120,116,47,106,97,118,97,115,99,114,105,112,116>> :> "JavaScript") @@ (<<105,109,97,103,101,47,106,112,101,103>> :> "Jpeg") @@ (<<97,112,112,108,105,99,97,116,105,111,110,47,106,115,111,110>> :> "Json") @@ (<<116,101,120,116,47,109,97,114,107,100,111,119,110>> :> "Markdown") @@ (<<109,117,108,116,105,112,97,114,116,47,102,111,114,109,45,100,97,116,97>> :> "MultipartForm") @@ (<<>> :> "None") @@ (<<97,112,112,108,105,99,97,116,105,111,110,47,111,99,116,101,116,45,115,116,114,101,97,109>> :> "OctetStream") @@ (<<97,112,112,108,105,99,97,116,105,111,110,47,112,100,102>> :> "Pdf") @@ (<<116,101,120,116,47,112,108,97,105,110>> :> "PlainText") @@ (<<105,109,97,103,101,47,112,110,103>> :> "Png") @@ (<<105,109,97,103,101,47,115,118,103,43,120,109,108>> :> "Svg")
CType(ct) == IF ct = <<>> THEN [v |-> "None", raw |-> <<>>]
             ELSE LET tok == Split(ct[1], 59)[1] IN
                  IF tok \in DOMAIN MediaTypes THEN [v |-> MediaTypes[tok], raw |-> <<>>] ELSE [v |-> "String", raw |-> ct[1]]

\* ---------------- the whole classification ----------------
\* returns [k |-> "err", errs] or [k |-> "ok", body, len, chunked, gzip, expect, ctypeRaw, cookies, headers]
Classify(method, fields) ==
  LET te == TE(fields)
      cl == GetAll(fields, N_CL)
      ex == GetOnly(fields, N_EXPECT)
      expect == ex # <<>> /\ ex[1] = V_100
      ck == CookieFields(GetAll(fields, N_COOKIE), <<>>)
      ct == GetOnly(fields, N_CT)
      errs == (IF ~te.ok THEN {"UnsupportedTransferEncoding"} ELSE {})
              \cup (IF Len(cl) > 1 \/ (Len(cl) = 1 /\ ~IsLen(cl[1])) THEN {"InvalidContentLength"} ELSE {})
              \cup (IF ~ck.ok THEN {"MalformedCookieHeader"} ELSE {})
  IN IF errs # {} THEN [k |-> "err", errs |-> errs, free |-> te.free /\ errs = {"UnsupportedTransferEncoding"}]
     ELSE LET known == Len(cl) = 1
              zero == known /\ StripZeros(cl[1]) = <<48>>
              body == IF te.chunked THEN "Unknown"
                      ELSE IF zero THEN "Empty"
                      ELSE IF known THEN "Known"
                      ELSE IF method \in {M_POST, M_PUT} THEN "Unknown"
                      ELSE IF expect \/ te.gzip THEN "Unknown"
                      ELSE "Empty"
          IN [k |-> "ok", body |-> body, len |-> IF known THEN StripZeros(cl[1]) ELSE <<>>,
              chunked |-> te.chunked, gzip |-> te.gzip, expect |-> expect,
              ctype |-> CType(ct), cookies |-> CookieMap(ck.pairs),
              headers |-> SelectSeq(fields, LAMBDA f : ~SameName(f[1], N_CT) /\ ~SameName(f[1], N_EXPECT) /\ ~SameName(f[1], N_TE))]

\* A coding that differs from a known one only in letter case is outside what the library documents: refusing it is what
\* the pinned code does, recognising it (codings are case-insensitive in RFC 7230) would be as good -- but nothing else:
\* a message that is accepted must then be framed as the coding says, not as if the field were absent.
LowerTE(fields) == [i \in 1..Len(fields) |-> IF SameName(fields[i][1], N_TE) THEN <<fields[i][1], LowerSeq(fields[i][2])>> ELSE fields[i]]
ClassifyLenient(method, fields) == Classify(method, LowerTE(fields))
====
