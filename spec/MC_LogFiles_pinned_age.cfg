SPECIFICATION Spec
CONSTANTS
  MaxWrite = 4
  Keep = 8
  KeepAge = 3
  MaxWriteAge = 2
  FixPush = FALSE
  FixScan = TRUE
  FixSat = TRUE
  Sizes = {1, 2, 3}
  StartSize = 1
  MaxEvents = 5
  MaxNow = 14
  MaxRestarts = 2
  ForeignLens = {2, 5}
  ForeignAges = {1, 5}
  MaxForeign = 2
  TiesPossible = FALSE
INVARIANTS KeepsRunning
CHECK_DEADLOCK FALSE
